//! C08, engine side (unit engine_tms): fixed histories on `IncrementalEngine` in which a logically inserted fact was left in
//! working memory without support.  Each is the concrete failing input for an obligation of unit engine_tms
//! (insert_logical::C08.logically_inserted_fact_is_present_exactly_when_its_justification_has_all_premises_present,
//! reset_with_deffacts::C08.reset_restarts_working_memory_and_truth_maintenance_together).
//!
//! REFERENCE (from the statement): a logically inserted fact is present exactly when at least one of its justifications has all
//! of its premises present.
//!
//! Register in main.rs with `mod engine_tms;` and `all.extend(engine_tms::witnesses());`.
use rust_rule_engine::rete::propagation::IncrementalEngine;
use rust_rule_engine::rete::{ActionResult, AlphaNode, ReteUlNode, TypedFacts, TypedReteUlRule};
use std::sync::Arc;

fn data(i: i64) -> TypedFacts {
    let mut t = TypedFacts::new();
    t.set("n", i);
    t
}

/// a = explicit; retract a; b = logical from [a]  -- b's only justification names an absent premise, so b must not be present
fn c08_logical_insert_with_absent_premise() -> (bool, String) {
    let mut e = IncrementalEngine::new();
    let a = e.insert_explicit("P".to_string(), data(1));
    if e.retract(a).is_err() {
        return (true, "engine: f1 = explicit; retract f1 -- the retraction of a present fact failed".to_string());
    }
    let b = e.insert_logical("D".to_string(), data(2), "R0".to_string(), vec![a]);
    let present = e.working_memory().get(&b).is_some();
    if present {
        return (
            true,
            format!(
                "engine: f1 = explicit; retract f1; f2 = logical by R0 from [\"f1\"] -- f2 expected absent (its only premise is absent), working memory has it; tms().has_valid_justification(f2) = {}",
                e.tms().has_valid_justification(b)
            ),
        );
    }
    // the other direction: all premises present => the fact is present
    let mut e = IncrementalEngine::new();
    let a = e.insert_explicit("P".to_string(), data(1));
    let b = e.insert_logical("D".to_string(), data(2), "R0".to_string(), vec![a]);
    if e.working_memory().get(&b).is_none() {
        return (true, "engine: f1 = explicit; f2 = logical by R0 from [\"f1\"] -- f2 expected present, working memory does not have it".to_string());
    }
    // two premises, one of them absent
    let mut e = IncrementalEngine::new();
    let a = e.insert_explicit("P".to_string(), data(1));
    let c = e.insert_explicit("P".to_string(), data(2));
    let _ = e.retract(c);
    let b = e.insert_logical("D".to_string(), data(3), "R0".to_string(), vec![a, c]);
    if e.working_memory().get(&b).is_some() {
        return (true, "engine: f1 = explicit; f2 = explicit; retract f2; f3 = logical by R0 from [\"f1\", \"f2\"] -- f3 expected absent, working memory has it".to_string());
    }
    if e.working_memory().get(&a).is_none() {
        return (true, "engine: f1 = explicit; f2 = explicit; retract f2; f3 = logical by R0 from [\"f1\", \"f2\"] -- f1 expected present, it is gone".to_string());
    }
    (false, "3 fixed histories: logical insertion with an absent premise (alone / next to a present one) and with a present premise".to_string())
}

/// one rule firing whose action returns [Retract(matched), InsertLogicalFact { premises: [matched] }]
fn c08_rule_action_retracts_the_premise_before_the_logical_insert() -> (bool, String) {
    let mut e = IncrementalEngine::new();
    e.add_rule(
        TypedReteUlRule {
            name: "Consume".to_string(),
            node: ReteUlNode::UlAlpha(AlphaNode { field: "Order.open".to_string(), operator: "==".to_string(), value: "true".to_string() }),
            priority: 0,
            no_loop: true,
            action: Arc::new(move |facts, results| {
                if let Some(me) = facts.get_fact_handle("Order") {
                    results.add(ActionResult::Retract(me));
                    results.add(ActionResult::InsertLogicalFact {
                        fact_type: "Invoice".to_string(),
                        data: data(7),
                        rule_name: "Consume".to_string(),
                        premises: vec![me],
                    });
                }
            }),
        },
        vec!["Order".to_string()],
    );
    let mut o = TypedFacts::new();
    o.set("open", true);
    let oh = e.insert("Order".to_string(), o);
    let fired = e.fire_all();
    if fired != vec!["Consume".to_string()] {
        return (true, format!("engine: rule Consume on Order.open == true; insert Order; fire_all -- fired {:?}, expected [\"Consume\"]", fired));
    }
    let order_present = e.working_memory().get(&oh).is_some();
    let invoices = e.working_memory().get_by_type("Invoice").len();
    if order_present || invoices != 0 {
        return (
            true,
            format!(
                "engine: rule Consume (action = [Retract(matched Order), InsertLogicalFact Invoice from [matched Order]]); insert Order; fire_all -- expected Order absent and no Invoice (its only premise is absent); Order present = {}, Invoice facts = {}",
                order_present, invoices
            ),
        );
    }
    (false, "1 fixed history: a rule action retracts its matched fact and then logically inserts a fact premised on it".to_string())
}

/// reset_with_deffacts starts the handle numbering again; records of the TMS about the old handles must not carry over
fn c08_reset_with_deffacts_keeps_no_stale_support() -> (bool, String) {
    let mut e = IncrementalEngine::new();
    let x = e.insert_explicit("P".to_string(), data(1));
    let _z = e.insert_explicit("P".to_string(), data(2));
    let _y = e.insert_logical("D".to_string(), data(3), "R0".to_string(), vec![x]);
    e.reset_with_deffacts();
    let _p = e.insert_explicit("P".to_string(), data(4));
    let q = e.insert_explicit("P".to_string(), data(5));
    let r = e.insert_logical("D".to_string(), data(6), "R0".to_string(), vec![q]);
    if e.working_memory().get(&r).is_none() {
        return (true, "engine: (f1 = explicit; f2 = explicit; f3 = logical from [f1]; reset_with_deffacts;) g1 = explicit; g2 = explicit; g3 = logical by R0 from [\"g2\"] -- g3 expected present, working memory does not have it".to_string());
    }
    let _ = e.retract(q);
    if e.working_memory().get(&r).is_some() {
        return (
            true,
            "engine: f1 = explicit; f2 = explicit; f3 = logical by R0 from [\"f1\"]; reset_with_deffacts (no deffacts); g1 = explicit; g2 = explicit; g3 = logical by R0 from [\"g2\"]; retract g2 -- g3 expected absent (its only premise is absent), working memory has it (the handles 1..3 are handed out again and the justification 'f3 from f1' recorded before the reset still counts)".to_string(),
        );
    }
    // a retraction recorded before the reset must not make a new premise look absent
    let mut e = IncrementalEngine::new();
    let x = e.insert_explicit("P".to_string(), data(1));
    let _ = e.retract(x);
    e.reset_with_deffacts();
    let p = e.insert_explicit("P".to_string(), data(2));
    let d = e.insert_logical("D".to_string(), data(3), "R0".to_string(), vec![p]);
    if e.working_memory().get(&d).is_none() {
        return (true, "engine: f1 = explicit; retract f1; reset_with_deffacts (no deffacts); g1 = explicit; g2 = logical by R0 from [\"g1\"] -- g2 expected present (g1 is present), working memory does not have it (the retraction of f1 recorded before the reset is attributed to g1)".to_string());
    }
    (false, "2 fixed histories across reset_with_deffacts: a justification / a retraction recorded before the reset does not affect the facts that receive the same handles afterwards".to_string())
}

pub fn witnesses() -> Vec<crate::W> {
    vec![
        ("c08_logical_insert_with_absent_premise", c08_logical_insert_with_absent_premise as fn() -> (bool, String)),
        (
            "c08_rule_action_retracts_the_premise_before_the_logical_insert",
            c08_rule_action_retracts_the_premise_before_the_logical_insert as fn() -> (bool, String),
        ),
        ("c08_reset_with_deffacts_keeps_no_stale_support", c08_reset_with_deffacts_keeps_no_stale_support as fn() -> (bool, String)),
    ]
}
