// Appended to src/types.rs of a scratch copy (never to /repo).  The contract attribute is injected in front of
// `pub fn evaluate` there; this module holds the SPEC (written from the documented meaning of the operators, not from the
// code) and the proof_for_contract harnesses.  Every harness is loop-free over the full domain of its scalar payloads
// (all f64 bit patterns incl. NaN, +-0, +-inf; all i64; both bools) => a COMPLETE proof for that pair of operand variants.
#[cfg(kani)]
pub mod verif_kani_operator {
    use super::*;

    /// documented: Number and Integer compare numerically (Integer converted to f64); nothing else is a number here
    pub fn num(v: &Value) -> Option<f64> {
        match v {
            Value::Number(n) => Some(*n),
            Value::Integer(i) => Some(*i as f64),
            _ => None,
        }
    }
    /// documented: the string "null" and the null value are the same thing in an equality test against null
    pub fn null_like(v: &Value) -> bool {
        match v {
            Value::Null => true,
            Value::String(s) => s == "null",
            _ => false,
        }
    }
    /// equality of two scalars: same kind and same payload (IEEE == on floats: NaN is unequal to itself, 0.0 == -0.0)
    pub fn scalar_eq(a: &Value, b: &Value) -> bool {
        match (a, b) {
            (Value::Number(x), Value::Number(y)) => x == y,
            (Value::Integer(x), Value::Integer(y)) => x == y,
            (Value::Boolean(x), Value::Boolean(y)) => x == y,
            (Value::Null, Value::Null) => true,
            _ => false,
        }
    }
    /// the specification of Operator::evaluate on SCALAR operands (Number, Integer, Boolean, Null)
    pub fn op_spec_scalar(op: &Operator, l: &Value, r: &Value) -> bool {
        let both = num(l).is_some() && num(r).is_some();
        match op {
            Operator::Equal => {
                if matches!(l, Value::Null) || matches!(r, Value::Null) { null_like(l) == null_like(r) } else { scalar_eq(l, r) }
            }
            Operator::NotEqual => {
                if matches!(l, Value::Null) || matches!(r, Value::Null) { null_like(l) != null_like(r) } else { !scalar_eq(l, r) }
            }
            Operator::GreaterThan => both && num(l).unwrap() > num(r).unwrap(),
            Operator::GreaterThanOrEqual => both && num(l).unwrap() >= num(r).unwrap(),
            Operator::LessThan => both && num(l).unwrap() < num(r).unwrap(),
            Operator::LessThanOrEqual => both && num(l).unwrap() <= num(r).unwrap(),
            // string and membership operators are false on scalars
            Operator::Contains | Operator::NotContains | Operator::StartsWith | Operator::EndsWith | Operator::Matches | Operator::In => false,
        }
    }
    pub fn is_scalar(v: &Value) -> bool {
        matches!(v, Value::Number(_) | Value::Integer(_) | Value::Boolean(_) | Value::Null)
    }
    /// the contract's postcondition: on scalar operands the result is the specified one (other operands: no claim)
    pub fn evaluate_post(op: &Operator, l: &Value, r: &Value, res: bool) -> bool {
        !(is_scalar(l) && is_scalar(r)) || res == op_spec_scalar(op, l, r)
    }

    fn any_op() -> Operator {
        match kani::any::<u8>() % 12 {
            0 => Operator::Equal,
            1 => Operator::NotEqual,
            2 => Operator::GreaterThan,
            3 => Operator::GreaterThanOrEqual,
            4 => Operator::LessThan,
            5 => Operator::LessThanOrEqual,
            6 => Operator::Contains,
            7 => Operator::NotContains,
            8 => Operator::StartsWith,
            9 => Operator::EndsWith,
            10 => Operator::Matches,
            _ => Operator::In,
        }
    }
    fn mk(kind: u8) -> Value {
        match kind {
            0 => Value::Number(kani::any()),
            1 => Value::Integer(kani::any()),
            2 => Value::Boolean(kani::any()),
            _ => Value::Null,
        }
    }
    macro_rules! pair {
        ($name:ident, $l:expr, $r:expr) => {
            #[kani::proof_for_contract(Operator::evaluate)]
            fn $name() {
                let (l, r) = (mk($l), mk($r));
                let op = any_op();
                let _ = op.evaluate(&l, &r);
            }
        };
    }
    pair!(op_number_number, 0, 0);
    pair!(op_number_integer, 0, 1);
    pair!(op_number_boolean, 0, 2);
    pair!(op_number_null, 0, 3);
    pair!(op_integer_number, 1, 0);
    pair!(op_integer_integer, 1, 1);
    pair!(op_integer_boolean, 1, 2);
    pair!(op_integer_null, 1, 3);
    pair!(op_boolean_number, 2, 0);
    pair!(op_boolean_integer, 2, 1);
    pair!(op_boolean_boolean, 2, 2);
    pair!(op_boolean_null, 2, 3);
    pair!(op_null_number, 3, 0);
    pair!(op_null_integer, 3, 1);
    pair!(op_null_boolean, 3, 2);
    pair!(op_null_null, 3, 3);
}
