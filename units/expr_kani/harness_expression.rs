// Appended to src/expression.rs of a scratch copy (never to /repo).  The postconditions are asserted by plain #[kani::proof]
// harnesses around the REAL functions (Kani's proof_for_contract instrumentation made the same obligations 10-30x slower here:
// measured > 400 s against 17 s for find_operator).  Integer operands of apply_operator are NOT covered: the symbolic
// i64 -> f64 conversion followed by fract()/`as i64` did not finish in 300 s per harness; neither are non-numeric operands (the
// error path builds and drops a RuleEngineError, whose io::Error variant's drop glue did not finish in 11 min under CBMC).
//  * find_operator: the caller (evaluate_expression) slices `expr[..p]`, `expr[p..p+1]`, `expr[p+1..]` with the result, so the
//    contract is "a returned offset is sliceable": p < len and p, p+1 are char boundaries.  Inputs: every valid UTF-8 string of
//    at most N bytes (N in the harness name) => BOUNDED by N, unwinding assertions on.
//  * strip_outer_parens: slices `expr[1..len-1]` itself; contract "no panic, and Some(inner) is the argument without its first
//    byte `(` and its last byte `)`".  Same bounded input space.
//  * apply_operator: must return Ok or Err for every pair of scalar operands and every operator text — no panic, no overflow
//    trap.  One harness per concrete operator text and operand-variant pair, payloads fully symbolic, loop-free => COMPLETE for
//    that pair.  `format!` (error messages) is stubbed: message text is outside the contract.
#[cfg(kani)]
pub mod verif_kani_expression {
    use super::*;

    pub fn sliceable(expr: &str, r: &Option<usize>) -> bool {
        match r {
            Some(p) => *p < expr.len() && expr.is_char_boundary(*p) && expr.is_char_boundary(*p + 1),
            None => true,
        }
    }

    pub fn stub_format(_args: std::fmt::Arguments<'_>) -> String {
        String::new()
    }

    macro_rules! find_op {
        ($name:ident, $n:expr, $ops:expr) => {
            #[kani::proof]
            #[kani::unwind(6)]
            fn $name() {
                let bytes: [u8; $n] = kani::any();
                let n: usize = kani::any();
                kani::assume(n <= $n);
                if let Ok(s) = std::str::from_utf8(&bytes[..n]) {
                    let r = find_operator(s, $ops);
                    assert!(sliceable(s, &r)); // the function's postcondition
                }
            }
        };
    }
    find_op!(find_operator_additive_utf8_le3, 3, &['+', '-']);
    find_op!(find_operator_multiplicative_utf8_le3, 3, &['*', '/', '%']);
    find_op!(find_operator_additive_utf8_le4, 4, &['+', '-']);

    // strip_outer_parens (the parenthesis repair): it slices `expr[1..len - 1]` itself, and evaluate_expression recurses on the result.
    // Postcondition: no panic, and a returned text is the argument without its first and last byte, which are `(` and `)` (so the
    // recursion is on a text two bytes shorter).  Same input space and bound as find_operator.
    macro_rules! strip_parens {
        ($name:ident, $n:expr) => {
            #[kani::proof]
            #[kani::unwind(6)]
            fn $name() {
                let bytes: [u8; $n] = kani::any();
                let n: usize = kani::any();
                kani::assume(n <= $n);
                if let Ok(s) = std::str::from_utf8(&bytes[..n]) {
                    if let Some(inner) = strip_outer_parens(s) {
                        assert!(s.len() >= 2 && inner.len() + 2 == s.len());
                        assert!(s.as_bytes()[0] == b'(' && s.as_bytes()[s.len() - 1] == b')');
                        assert!(inner.as_ptr() == s.as_bytes()[1..].as_ptr());
                    }
                }
            }
        };
    }
    strip_parens!(strip_outer_parens_utf8_le3, 3);
    strip_parens!(strip_outer_parens_utf8_le4, 4);

    fn mk(kind: u8) -> Value {
        match kind {
            0 => Value::Number(kani::any()),
            1 => Value::Integer(kani::any()),
            _ => Value::Null,
        }
    }
    macro_rules! apply_op {
        ($name:ident, $op:expr, $l:expr, $r:expr) => {
            #[kani::proof]
            #[kani::stub(std::fmt::format, stub_format)]
            fn $name() {
                let (l, r) = (mk($l), mk($r));
                let _ = apply_operator(&l, $op, &r);
            }
        };
    }
    apply_op!(apply_add_num_num, "+", 0, 0);
    apply_op!(apply_sub_num_num, "-", 0, 0);
    apply_op!(apply_mul_num_num, "*", 0, 0);
    apply_op!(apply_div_num_num, "/", 0, 0);
    apply_op!(apply_rem_num_num, "%", 0, 0);
    apply_op!(apply_unknown_op_num_num, "^", 0, 0);
}

