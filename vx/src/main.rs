//! vx — mechanical extractor: real items of /repo -> text that single-file Verus accepts.
//!
//! Reads a JSON request on stdin, writes a JSON response on stdout.  It never invents code: every
//! output token comes from the parsed source file or from the closed rewrite table below
//! (DESIGN.md §2.2).  Anything it cannot handle is an error for that item (the caller turns it
//! into exit 2 "undecided"), never a silent skip.
//!
//! Rewrites (each application is counted in the response):
//!   A0  attributes / doc comments dropped; items, statements, fields, arms under a cfg that is
//!       off for the requested feature set dropped
//!   A1  print / log macro statements dropped
//!   A2  visibility widened to `pub`
//!   A3  crate-internal paths (`crate::a::b::Item`) shortened to the item; `use` statements inside bodies dropped
//!   R1  `X.iter()…any/all/count/collect/find/position/for_each` iterator chains -> explicit loops
//!   R4  `for (i, x) in X.iter().enumerate()` -> counted `for` with an index variable
//!   R5  `A.extend(b)` (b a Vec variable) -> `A.append(&mut b')`
//!   R7  lock elision: Arc<RwLock<T>> -> T, `.write().unwrap()` -> `&mut`, `.read().unwrap()` -> `&`
//!   R8  `format!(..)` -> `vx_opaque_string()` (an arbitrary String)
//!   R12 `X.retain(|e| P)` -> explicit filter loop (Vec: swap + by-value for; VecDeque: rotate once)
//!   R13 `for x in &mut V` -> counted while loop over `&mut V[i]`
//!   R15 `for x in V.into_iter().rev()` -> `let mut t = V; while t.len() > 0 { let x = t.pop().unwrap(); .. }`
//!   R16 `for x in SET` (named local HashSet of Copy elements, listed per function) -> `for r in SET.iter() { let x = *r; .. }`
//!   R17 a `for` over a range / `&V` / `V.iter()` whose body uses `continue` -> counted `while` (Verus: no continue in for-loops)
//!   R18 arm abstraction (per function, listed arms kept): other arms of the same `match` -> arbitrary result + arbitrary change of listed places
//!   R19 `opt.or_else(|| B)` / `unwrap_or_else(|| B)` / `ok_or_else(|| E)` / `map_or(LIT, |p| B)` / `map_or_else(|| D, |p| B)` -> `match`
//!   R20 `M.entry(K).or_default().push(V)` (push_back / insert; or_insert_with(Vec::new) ..) -> `vx_entry_or_default_push(&mut M, K, V)` (prelude/entry.vrs)
//!   R3  `opt.is_some_and(|x| B)` -> `match`      R21 `a |= b` / `a &= b` on bools -> `{ let t = b; a = a || t; }`
//!   R23 calls to private helpers of the same impl/file that the unit does not put under contract (no generics, no return/?) are inlined
//!   R22 `CHAIN.fold(INIT, |acc, x| B)` -> loop with an accumulator; `CHAIN.max()` / `.min()` -> loop (last max / first min)
//!   R11 reference patterns in `for` / closure parameters / `Some(&x)` -> bind + deref
//!   RS  pinned statement replacement   (request: replace_stmt)
//!   RE  pinned expression replacement  (request: replace_expr)
//! Markers inserted for the assembler (removed again by it):
//!   __vx_body!()        first statement of the function body
//!   __vx_fnend!()       before the tail expression / at the end of the body
//!   __vx_loop!(k)       first statement of the body of loop k (pre-order, after rewrites)
//!   __vx_loopend!(k)    last statement of the body of loop k
//!   __vx_iter!(k, e)    iterator expression of `for` loop k
//!   __vx_at!(id)        requested anchors (before/after a statement identified by its token text)

use proc_macro2::{Span, TokenStream};
use quote::{quote, ToTokens};
use serde::{Deserialize, Serialize};
use std::collections::BTreeMap;
use syn::visit_mut::{self, VisitMut};
use syn::*;

#[derive(Deserialize)]
struct Request {
    #[serde(default)]
    features: Vec<String>,
    items: Vec<ItemReq>,
}

#[derive(Deserialize, Clone)]
struct Anchor {
    id: u32,
    pos: String, // before | after
    text: String,
    /// further accepted forms of the anchored statement (any one may match)
    #[serde(default)]
    alts: Vec<String>,
    #[serde(default)]
    nth: Option<usize>,
}

#[derive(Deserialize, Clone)]
struct Replace {
    text: String,
    with: String,
    #[serde(default)]
    all: bool,
    /// alternatives: exactly one member of a group must match
    #[serde(default)]
    group: Option<u32>,
}

#[derive(Deserialize, Clone)]
struct ItemReq {
    kind: String, // fn | type | const
    file: String,
    path: String,
    #[serde(default)]
    anchors: Vec<Anchor>,
    #[serde(default)]
    replace_stmt: Vec<Replace>,
    #[serde(default)]
    replace_expr: Vec<Replace>,
    #[serde(default)]
    no_rewrite: Vec<String>,
    #[serde(default)]
    sig_only: bool,
    /// "vec" | "deque": receiver kind assumed by the retain lowering (rustc rejects a wrong choice)
    #[serde(default)]
    retain: Option<String>,
    /// force `&self` -> `&mut self` (callers of lock-elided writers)
    #[serde(default)]
    mutself: bool,
    /// R7b: parameters `name: &T` whose T has interior mutability through locks -> `name: &mut T`
    #[serde(default)]
    mutparam: Vec<String>,
    /// R18: in every `match` that has an arm whose pattern starts with one of these prefixes, the OTHER arms are
    /// replaced by an arbitrary result (and an arbitrary change of the `havoc` places): partial extraction
    #[serde(default)]
    keeparms: Vec<String>,
    #[serde(default)]
    havoc: Vec<String>,
    /// R23: names of the functions the unit itself provides (//@fn or //@stub): calls to OTHER private helpers of the same
    /// impl / file are inlined (a helper extracted by a refactoring must not leave the caller without a contract)
    #[serde(default)]
    known_fns: Vec<String>,
    #[serde(default)]
    no_inline: bool,
    /// R16: names of local HashSet<Copy> values iterated by value (`for x in NAME`)
    #[serde(default)]
    setiter: Vec<String>,
}

#[derive(Serialize, Default)]
struct ItemResp {
    ok: bool,
    error: Option<String>,
    kind: String,
    path: String,
    /// for fn: `impl<..> Trait for Type` header (without braces) or null for free fns
    impl_header: Option<String>,
    /// for fn: everything of the signature before the return type (`pub fn f<..>(args)`)
    sig_head: String,
    ret_ty: Option<String>,
    where_clause: Option<String>,
    /// fn body with markers / type definition text
    text: String,
    loops: u32,
    loop_kinds: Vec<String>,
    derives: Vec<String>,
    rewrites: BTreeMap<String, u32>,
    missing_anchors: Vec<u32>,
    /// anchor id -> block nesting depth at which the hint was placed
    anchor_depths: BTreeMap<u32, u32>,
    /// control skeleton after the rewrites: if / match / return / break / continue / ? and the loops, in pre-order
    ctrl: Vec<String>,
    /// normalised token text of the original item (for pins / change detection)
    orig_norm: String,
}

fn norm(s: &str) -> String {
    s.chars().filter(|c| !c.is_whitespace()).collect()
}
fn tnorm<T: ToTokens>(t: &T) -> String {
    norm(&t.to_token_stream().to_string())
}

// ---------------------------------------------------------------------------------------------
// cfg evaluation
// ---------------------------------------------------------------------------------------------
fn cfg_on(meta: &Meta, feats: &[String]) -> Option<bool> {
    // returns Some(b) if the predicate can be decided
    match meta {
        Meta::Path(p) => {
            if p.is_ident("test") || p.is_ident("kani") || p.is_ident("docsrs") {
                Some(false)
            } else {
                None
            }
        }
        Meta::NameValue(nv) => {
            if nv.path.is_ident("feature") {
                if let Expr::Lit(ExprLit { lit: Lit::Str(s), .. }) = &nv.value {
                    return Some(feats.iter().any(|f| *f == s.value()));
                }
            }
            None
        }
        Meta::List(l) => {
            let inner: Vec<Meta> = l
                .parse_args_with(punctuated::Punctuated::<Meta, Token![,]>::parse_terminated)
                .ok()?
                .into_iter()
                .collect();
            if l.path.is_ident("not") {
                inner.first().and_then(|m| cfg_on(m, feats)).map(|b| !b)
            } else if l.path.is_ident("all") {
                let mut r = true;
                for m in &inner {
                    r &= cfg_on(m, feats)?;
                }
                Some(r)
            } else if l.path.is_ident("any") {
                let mut r = false;
                for m in &inner {
                    r |= cfg_on(m, feats)?;
                }
                Some(r)
            } else {
                None
            }
        }
    }
}

/// false => the thing carrying these attributes is compiled out
fn attrs_enabled(attrs: &[Attribute], feats: &[String]) -> std::result::Result<bool, String> {
    for a in attrs {
        if a.path().is_ident("cfg") {
            let m: Meta = a.parse_args().map_err(|e| format!("cfg parse: {e}"))?;
            match cfg_on(&m, feats) {
                Some(true) => {}
                Some(false) => return Ok(false),
                None => return Err(format!("undecidable cfg: {}", a.to_token_stream())),
            }
        }
    }
    Ok(true)
}

// ---------------------------------------------------------------------------------------------
// the rewriting visitor
// ---------------------------------------------------------------------------------------------
struct Rw<'a> {
    setiter: Vec<String>,
    wrote_lock: bool,
    refpat: u32,
    retain: String,
    feats: &'a [String],
    counts: BTreeMap<String, u32>,
    err: Option<String>,
    fresh_by_kind: BTreeMap<String, u32>,
    no: Vec<String>,
}

impl<'a> Rw<'a> {
    fn bump(&mut self, k: &str) {
        *self.counts.entry(k.to_string()).or_insert(0) += 1;
    }
    fn fail(&mut self, m: String) {
        if self.err.is_none() {
            self.err = Some(m);
        }
    }
    /// generated names are numbered PER KIND (`__vx_i1`, `__vx_i2`, `__vx_f1`, ..) in order of creation within the function,
    /// so that a change that introduces a name of another kind does not renumber the ones contracts refer to
    fn fresh(&mut self, base: &str) -> Ident {
        let n = self.fresh_by_kind.entry(base.to_string()).or_insert(0);
        *n += 1;
        Ident::new(&format!("__vx_{}{}", base, n), Span::call_site())
    }
    fn enabled(&self, r: &str) -> bool {
        !self.no.iter().any(|x| x == r)
    }
}

fn is_print_macro(m: &Macro) -> bool {
    let p = m.path.to_token_stream().to_string().replace(' ', "");
    matches!(
        p.as_str(),
        "println" | "eprintln" | "print" | "eprint" | "dbg"
            | "log::info" | "log::debug" | "log::warn" | "log::error" | "log::trace"
            | "info" | "debug" | "warn" | "error" | "trace"
    )
}

/// one stage of an iterator chain, innermost first
enum Stage {
    Map(ExprClosure),
    Filter(ExprClosure),
    FilterMap(ExprClosure),
    Cloned,
    Copied,
    /// `.skip(n)`: the first n elements that reach this stage are dropped
    Skip(Expr),
}

struct Chain {
    source: Expr, // e.g. X.iter(), X.values(), X.into_iter()
    stages: Vec<Stage>,
}

/// a closure argument that may be spliced into the enclosing function: its body must not contain `return` (which would leave the
/// CLOSURE there but the FUNCTION after splicing) nor `?`
fn closure_of(e: &Expr) -> Option<ExprClosure> {
    match e {
        Expr::Closure(c) => {
            let mut h = HasReturnOrTry { found: false };
            syn::visit::Visit::visit_expr(&mut h, &c.body);
            if h.found {
                None
            } else {
                Some(c.clone())
            }
        }
        Expr::Paren(p) => closure_of(&p.expr),
        _ => None,
    }
}

/// Recognise `SRC.stage()*` where SRC ends in .iter()/.values()/.keys()/.into_iter()/.chars()/.iter_mut()
fn parse_chain(e: &Expr) -> Option<Chain> {
    if let Expr::MethodCall(mc) = e {
        let name = mc.method.to_string();
        match name.as_str() {
            "iter" | "values" | "keys" | "into_iter" | "drain" if mc.args.is_empty() || name == "drain" => {
                return Some(Chain { source: e.clone(), stages: vec![] });
            }
            "map" | "filter" | "filter_map" if mc.args.len() == 1 => {
                let c = closure_of(&mc.args[0])?;
                let mut ch = parse_chain(&mc.receiver)?;
                ch.stages.push(match name.as_str() {
                    "map" => Stage::Map(c),
                    "filter" => Stage::Filter(c),
                    _ => Stage::FilterMap(c),
                });
                return Some(ch);
            }
            "cloned" if mc.args.is_empty() => {
                let mut ch = parse_chain(&mc.receiver)?;
                ch.stages.push(Stage::Cloned);
                return Some(ch);
            }
            "copied" if mc.args.is_empty() => {
                let mut ch = parse_chain(&mc.receiver)?;
                ch.stages.push(Stage::Copied);
                return Some(ch);
            }
            "skip" if mc.args.len() == 1 => {
                let mut ch = parse_chain(&mc.receiver)?;
                ch.stages.push(Stage::Skip(mc.args[0].clone()));
                return Some(ch);
            }
            _ => {}
        }
    }
    None
}

fn closure_single_pat(c: &ExprClosure) -> Option<Pat> {
    if c.inputs.len() != 1 {
        return None;
    }
    let p = c.inputs[0].clone();
    Some(match p {
        Pat::Type(pt) => *pt.pat,
        p => p,
    })
}

impl<'a> Rw<'a> {
    /// Build `for <pat> in <source> { <wrap(stages, inner)> }` where `inner` may mention the
    /// final element name `elem`.  Returns (loop statement tokens).
    fn build_loop(&mut self, ch: &Chain, last_pat: Option<Pat>, inner: TokenStream) -> Option<TokenStream> {
        // names flow: the source yields v0; each stage binds the next name
        // we nest from the innermost body outwards.
        let n = ch.stages.len();
        // element patterns: pats[i] is the pattern binding the input of stage i (or of the sink if i == n)
        let mut pats: Vec<Pat> = Vec::new();
        for st in &ch.stages {
            match st {
                Stage::Map(c) | Stage::Filter(c) | Stage::FilterMap(c) => pats.push(closure_single_pat(c)?),
                Stage::Cloned | Stage::Copied | Stage::Skip(_) => {
                    let id = self.fresh("e");
                    pats.push(parse_quote!(#id));
                }
            }
        }
        let mut counters: Vec<TokenStream> = Vec::new();
        let sink_pat: Pat = match last_pat {
            Some(p) => p,
            None => {
                let id = self.fresh("e");
                parse_quote!(#id)
            }
        };
        pats.push(sink_pat);
        // Build inside-out
        let mut body = inner;
        for i in (0..n).rev() {
            let out_pat = &pats[i + 1];
            let in_pat = &pats[i];
            let in_ident = pat_as_ident(in_pat);
            body = match &ch.stages[i] {
                Stage::Map(c) => {
                    let b = &c.body;
                    quote! { let #out_pat = #b; #body }
                }
                Stage::FilterMap(c) => {
                    let b = &c.body;
                    quote! { if let Some(#out_pat) = #b { #body } }
                }
                Stage::Filter(c) => {
                    // filter's closure receives a reference to the element; the element itself flows on
                    // We bind the element to a fresh name, the closure pattern to a reference of it.
                    let b = &c.body;
                    // in_pat is the filter closure's pattern (binding &elem); the loop must yield elem
                    // under a fresh name which we patch below by renaming pats[i].
                    let _ = in_ident;
                    quote! { if #b { let #out_pat = __VX_FILTER_ELEM__; #body } }
                }
                Stage::Cloned | Stage::Copied => {
                    let id = in_ident.clone()?;
                    quote! { let #out_pat = (*#id).clone(); #body }
                }
                Stage::Skip(n) => {
                    // the counter lives in front of the loop; every element still flows through the earlier stages, as with std
                    let id = in_ident.clone()?;
                    let k = self.fresh("k");
                    counters.push(quote! { let mut #k: usize = 0; });
                    quote! { if #k < #n { #k = #k + 1; } else { let #out_pat = #id; #body } }
                }
            };
            // patch filter element plumbing
            if let Stage::Filter(_) = &ch.stages[i] {
                let elem = self.fresh("e");
                let inp = &pats[i];
                let s = body.to_string().replace("__VX_FILTER_ELEM__", &elem.to_string());
                let patched: TokenStream = s.parse().ok()?;
                body = quote! { let #inp = &#elem; #patched };
                pats[i] = parse_quote!(#elem);
            }
        }
        let first = &pats[0];
        let src = &ch.source;
        Some(quote! { #(#counters)* for #first in #src { #body } })
    }

    /// try to lower an iterator sink expression into a block expression with an explicit loop
    fn lower_sink(&mut self, e: &Expr) -> Option<Expr> {
        let mc = if let Expr::MethodCall(mc) = e { mc } else { return None };
        let name = mc.method.to_string();
        match name.as_str() {
            "any" | "all" if mc.args.len() == 1 => {
                let c = closure_of(&mc.args[0])?;
                let ch = parse_chain(&mc.receiver)?;
                let p = closure_single_pat(&c)?;
                let f = self.fresh("f");
                let b = &c.body;
                let (init, test) = if name == "any" {
                    (quote!(false), quote! { if !#f { if #b { #f = true; } } })
                } else {
                    (quote!(true), quote! { if #f { if !(#b) { #f = false; } } })
                };
                let lp = self.build_loop(&ch, Some(p), test)?;
                self.bump("R1.any_all");
                Some(parse_quote!({ let mut #f = #init; #lp #f }))
            }
            "fold" if mc.args.len() == 2 => {
                // CHAIN.fold(INIT, |acc, x| B)  ->  { let mut acc = INIT; for x in CHAIN { acc = B; } acc }
                let c = closure_of(&mc.args[1])?;
                if c.inputs.len() != 2 {
                    return None;
                }
                let accp = match &c.inputs[0] {
                    Pat::Type(pt) => (*pt.pat).clone(),
                    p => p.clone(),
                };
                let acc = pat_as_ident(&accp)?;
                let xp = match &c.inputs[1] {
                    Pat::Type(pt) => (*pt.pat).clone(),
                    p => p.clone(),
                };
                let ch = parse_chain(&mc.receiver)?;
                let init = &mc.args[0];
                let b = &c.body;
                let lp = self.build_loop(&ch, Some(xp), quote! { #acc = #b; })?;
                self.bump("R22.fold");
                Some(parse_quote!({ let mut #acc = #init; #lp #acc }))
            }
            "max" | "min" if mc.args.is_empty() => {
                // Iterator::max returns the LAST of several equal maxima, Iterator::min the FIRST of several equal minima
                let ch = parse_chain(&mc.receiver)?;
                let m = self.fresh("m");
                let x = self.fresh("x");
                let xp: Pat = parse_quote!(#x);
                let upd = if name == "max" {
                    quote! { #m = match #m { None => Some(#x), Some(__vx_c) => Some(if #x >= __vx_c { #x } else { __vx_c }) }; }
                } else {
                    quote! { #m = match #m { None => Some(#x), Some(__vx_c) => Some(if #x < __vx_c { #x } else { __vx_c }) }; }
                };
                let lp = self.build_loop(&ch, Some(xp), upd)?;
                self.bump("R22.max_min");
                Some(parse_quote!({ let mut #m = None; #lp #m }))
            }
            "sum" if mc.args.is_empty() => {
                // CHAIN.sum::<f64>() -> the left fold with `+` from the value `impl Sum for f64` starts from (prelude/f64_ops.vrs:
                // vx_f64_sum_init(), uninterpreted; elements may be f64 or &f64: x.vx_val())
                let tf = mc.turbofish.as_ref().map(|t| t.to_token_stream().to_string().replace(' ', ""));
                if tf.as_deref() != Some("::<f64>") {
                    return None;
                }
                let ch = parse_chain(&mc.receiver)?;
                let a = self.fresh("s");
                let x = self.fresh("x");
                let xp: Pat = parse_quote!(#x);
                let lp = self.build_loop(&ch, Some(xp), quote! { #a = #a + #x.vx_val(); })?;
                self.bump("R22.sum_f64");
                Some(parse_quote!({ let mut #a: f64 = vx_f64_sum_init(); #lp #a }))
            }
            "count" if mc.args.is_empty() => {
                let ch = parse_chain(&mc.receiver)?;
                if ch.stages.is_empty() {
                    return None;
                }
                let n = self.fresh("n");
                let lp = self.build_loop(&ch, None, quote! { #n = #n + 1; })?;
                self.bump("R1.count");
                Some(parse_quote!({ let mut #n: usize = 0; #lp #n }))
            }
            "collect" if mc.args.is_empty() => {
                let ch = parse_chain(&mc.receiver)?;
                // only Vec targets are supported; the turbofish / let type decides, we require Vec syntactically
                let tf = mc.turbofish.as_ref().map(|t| t.to_token_stream().to_string().replace(' ', ""));
                match tf.as_deref() {
                    Some(s) if s.starts_with("::<Vec<") => {}
                    _ => return None,
                }
                let v = self.fresh("v");
                let el = self.fresh("x");
                let elp: Pat = parse_quote!(#el);
                let lp = self.build_loop(&ch, Some(elp), quote! { #v.push(#el); })?;
                self.bump("R1.collect");
                Some(parse_quote!({ let mut #v = Vec::new(); #lp #v }))
            }
            _ => None,
        }
    }
}


/// R24: arms of a `match` without guards, equivalent to `arms` (a failed guard falls through to the arms that follow, which are
/// repeated inside the `else`); the scrutinee is evaluated again there, so the caller makes sure it is a place expression
fn lower_guards(arms: &[Arm], scrut: &Expr) -> Vec<Arm> {
    match arms.iter().position(|a| a.guard.is_some()) {
        None => arms.to_vec(),
        Some(i) => {
            let tail = lower_guards(&arms[i + 1..], scrut);
            let a = &arms[i];
            let g = &a.guard.as_ref().unwrap().1;
            let body = &a.body;
            let pat = &a.pat;
            let new_arm: Arm = parse_quote!(#pat => if #g { #body } else { match #scrut { #(#tail)* } },);
            let mut out: Vec<Arm> = arms[..i].to_vec();
            out.push(new_arm);
            out.extend(tail);
            out
        }
    }
}
fn is_place_expr(e: &Expr) -> bool {
    match e {
        Expr::Path(_) => true,
        Expr::Field(f) => is_place_expr(&f.base),
        Expr::Paren(p) => is_place_expr(&p.expr),
        Expr::Unary(u) => matches!(u.op, UnOp::Deref(_)) && is_place_expr(&u.expr),
        Expr::Reference(r) => is_place_expr(&r.expr),
        Expr::Tuple(t) => t.elems.iter().all(is_place_expr),
        _ => false,
    }
}

fn pat_as_ident(p: &Pat) -> Option<Ident> {
    match p {
        Pat::Ident(pi) if pi.by_ref.is_none() && pi.subpat.is_none() => Some(pi.ident.clone()),
        _ => None,
    }
}

impl<'a> VisitMut for Rw<'a> {
    fn visit_attributes_mut(&mut self, i: &mut Vec<Attribute>) {
        if !i.is_empty() {
            self.bump("A0.attrs");
        }
        i.clear();
    }

    fn visit_block_mut(&mut self, b: &mut Block) {
        // cfg-filter and print-drop on statements first
        let mut out = Vec::new();
        for s in std::mem::take(&mut b.stmts) {
            let attrs: &[Attribute] = match &s {
                Stmt::Local(l) => &l.attrs,
                Stmt::Macro(m) => &m.attrs,
                Stmt::Expr(e, _) => expr_attrs(e),
                Stmt::Item(_) => &[],
            };
            match attrs_enabled(attrs, self.feats) {
                Ok(true) => {}
                Ok(false) => {
                    self.bump("A0.cfg_off");
                    continue;
                }
                Err(m) => {
                    self.fail(m);
                }
            }
            if let Stmt::Item(Item::Use(_)) = &s {
                self.bump("A0.use");
                continue;
            }
            if let Stmt::Macro(m) = &s {
                if is_print_macro(&m.mac) {
                    self.bump("A1.print");
                    continue;
                }
            }
            if let Stmt::Expr(Expr::Macro(m), _) = &s {
                if is_print_macro(&m.mac) {
                    self.bump("A1.print");
                    continue;
                }
            }
            out.push(s);
        }
        b.stmts = out;
        visit_mut::visit_block_mut(self, b);
    }

    fn visit_local_mut(&mut self, l: &mut Local) {
        // `let x: Vec<T> = CHAIN.collect();` -> the Vec target is known from the annotation: give collect a turbofish
        if let Pat::Type(pt) = &l.pat {
            let is_vec = matches!(&*pt.ty, Type::Path(tp) if tp.path.segments.last().map(|s| s.ident == "Vec").unwrap_or(false));
            if is_vec {
                if let Some(init) = &mut l.init {
                    if let Expr::MethodCall(mc) = &mut *init.expr {
                        if mc.method == "collect" && mc.args.is_empty() && mc.turbofish.is_none() {
                            let ty = &pt.ty;
                            let tf: AngleBracketedGenericArguments = parse_quote!(::<#ty>);
                            mc.turbofish = Some(tf);
                        }
                    }
                }
            }
        }
        if let Pat::Type(pt) = &l.pat {
            if pt.ty.to_token_stream().to_string() == "f64" {
                if let Some(init) = &mut l.init {
                    if let Expr::MethodCall(mc) = &mut *init.expr {
                        if mc.method == "sum" && mc.args.is_empty() && mc.turbofish.is_none() {
                            mc.turbofish = Some(parse_quote!(::<f64>));
                        }
                    }
                }
            }
        }
        visit_mut::visit_local_mut(self, l);
    }

    fn visit_item_const_mut(&mut self, c: &mut ItemConst) {
        // a `const NAME: &T = ..;` inside a function body: the elided lifetime is 'static (Verus' macro wants it spelled out)
        if let Type::Reference(r) = &mut *c.ty {
            if r.lifetime.is_none() {
                r.lifetime = Some(parse_quote!('static));
                self.bump("A6.const_static_lifetime");
            }
        }
        visit_mut::visit_item_const_mut(self, c);
    }

    fn visit_expr_struct_mut(&mut self, st: &mut ExprStruct) {
        let mut keep = punctuated::Punctuated::new();
        for fv in std::mem::take(&mut st.fields).into_iter() {
            match attrs_enabled(&fv.attrs, self.feats) {
                Ok(true) => keep.push(fv),
                Ok(false) => self.bump("A0.cfg_off"),
                Err(e) => {
                    self.fail(e);
                    keep.push(fv)
                }
            }
        }
        // `Struct { a, ..rest }`: the rebuilt field list needs its trailing comma in front of `..rest`
        if st.rest.is_some() && !keep.is_empty() && !keep.trailing_punct() {
            keep.push_punct(Default::default());
        }
        st.fields = keep;
        visit_mut::visit_expr_struct_mut(self, st);
    }

    fn visit_expr_match_mut(&mut self, m: &mut ExprMatch) {
        let mut arms = Vec::new();
        for a in std::mem::take(&mut m.arms) {
            match attrs_enabled(&a.attrs, self.feats) {
                Ok(true) => arms.push(a),
                Ok(false) => self.bump("A0.cfg_off"),
                Err(e) => {
                    self.fail(e);
                    arms.push(a)
                }
            }
        }
        m.arms = arms;
        visit_mut::visit_expr_match_mut(self, m);
    }

    fn visit_expr_mut(&mut self, e: &mut Expr) {
        if self.enabled("R15") {
            // `for x in V.into_iter().rev() { .. }` (V a Vec taken by value) -> pop from the back until empty
            if let Expr::ForLoop(f) = e {
                if f.label.is_none() {
                    if let Expr::MethodCall(rv) = &*f.expr {
                        if rv.method == "rev" && rv.args.is_empty() {
                            if let Expr::MethodCall(ii) = &*rv.receiver {
                                if ii.method == "into_iter" && ii.args.is_empty() {
                                    let v = &ii.receiver;
                                    let t = self.fresh("rv");
                                    let pat = &f.pat;
                                    let stmts = &f.body.stmts;
                                    let ne: Expr = parse_quote!({
                                        let mut #t = #v;
                                        while #t.len() > 0 {
                                            let #pat = #t.pop().unwrap();
                                            #(#stmts)*
                                        }
                                    });
                                    *e = ne;
                                    self.bump("R15.rev_by_value");
                                }
                            }
                        }
                    }
                }
            }
        }
        if self.enabled("R13") {
            if let Expr::ForLoop(f) = e {
                let target: Option<Expr> = match &*f.expr {
                    Expr::Reference(r) if r.mutability.is_some() => Some((*r.expr).clone()),
                    Expr::MethodCall(mc) if mc.method == "iter_mut" && mc.args.is_empty() => Some((*mc.receiver).clone()),
                    _ => None,
                };
                if let (Some(v), None) = (target, &f.label) {
                    let i = self.fresh("i");
                    let pat = &f.pat;
                    let stmts = &f.body.stmts;
                    let ne: Expr = parse_quote!({
                        let mut #i: usize = 0;
                        while #i < #v.len() {
                            let #pat = &mut #v[#i];
                            #i += 1;
                            #(#stmts)*
                        }
                    });
                    *e = ne;
                    self.bump("R13.for_mut");
                }
            }
        }
        // children first (inner chains inside closures get lowered first)
        visit_mut::visit_expr_mut(self, e);
        if self.enabled("R17") {
            // Verus: "for-loops do not yet support continue" -> counted while loop (index advanced BEFORE the body)
            let mut repl: Option<Expr> = None;
            if let Expr::ForLoop(f) = e {
                let mut hc = HasContinue { found: false };
                syn::visit::Visit::visit_block(&mut hc, &f.body);
                if hc.found && f.label.is_none() {
                    let pat = &f.pat;
                    let stmts = &f.body.stmts;
                    match &*f.expr {
                        Expr::Range(r) if matches!(r.limits, RangeLimits::HalfOpen(_)) && r.start.is_some() && r.end.is_some() => {
                            let i = self.fresh("i");
                            let hi = self.fresh("hi");
                            let a = r.start.as_ref().unwrap();
                            let b = r.end.as_ref().unwrap();
                            repl = Some(parse_quote!({
                                let mut #i = #a;
                                let #hi = #b;
                                while #i < #hi {
                                    let #pat = #i;
                                    #i += 1;
                                    #(#stmts)*
                                }
                            }));
                        }
                        Expr::Reference(rf) if rf.mutability.is_none() => {
                            let i = self.fresh("i");
                            let v = &rf.expr;
                            repl = Some(parse_quote!({
                                let mut #i: usize = 0;
                                while #i < #v.len() {
                                    let #pat = &#v[#i];
                                    #i += 1;
                                    #(#stmts)*
                                }
                            }));
                        }
                        Expr::MethodCall(mc) if mc.method == "iter" && mc.args.is_empty() => {
                            let i = self.fresh("i");
                            let v = &mc.receiver;
                            repl = Some(parse_quote!({
                                let mut #i: usize = 0;
                                while #i < #v.len() {
                                    let #pat = &#v[#i];
                                    #i += 1;
                                    #(#stmts)*
                                }
                            }));
                        }
                        // any other iterator expression: explicit `loop` over `next()` (the unit supplies the specification of the
                        // iterator's `next`); `continue` in the body then continues the `loop`
                        other => {
                            let it = self.fresh("it");
                            repl = Some(parse_quote!({
                                let mut #it = core::iter::IntoIterator::into_iter(#other);
                                loop {
                                    match #it.next() {
                                        Some(#pat) => { #(#stmts)* }
                                        None => { break; }
                                    }
                                }
                            }));
                        }
                    }
                }
            }
            if let Some(r) = repl {
                *e = r;
                self.bump("R17.for_continue");
            }
        }
        // A1 in expression position (`Ok(_) => println!(..)`, `.unwrap_or_else(|| eprintln!(..))`): the print becomes `()`
        if let Expr::Macro(m) = e {
            if is_print_macro(&m.mac) {
                *e = parse_quote!(());
                self.bump("A1.print_expr");
                return;
            }
        }
        if self.enabled("R8") {
            // format!(..) -> an opaque String (the text of messages is outside every contract)
            if let Expr::Macro(m) = e {
                if m.mac.path.is_ident("format") {
                    *e = parse_quote!(vx_opaque_string());
                    self.bump("R8.format");
                    return;
                }
            }
        }
        if self.enabled("R7") {
            // X.write().unwrap() -> (&mut X) ; X.read().unwrap() -> (&X) ; X.lock().unwrap() -> (&mut X)
            let mut repl: Option<Expr> = None;
            if let Expr::MethodCall(mc) = e {
                if mc.method == "unwrap" && mc.args.is_empty() {
                    if let Expr::MethodCall(inner) = &*mc.receiver {
                        if inner.args.is_empty() {
                            let recv = &inner.receiver;
                            if inner.method == "write" || inner.method == "lock" {
                                repl = Some(parse_quote!((&mut #recv)));
                                self.wrote_lock = true;
                            } else if inner.method == "read" {
                                repl = Some(parse_quote!((&#recv)));
                            }
                        }
                    }
                }
            }
            // Arc::new(RwLock::new(X)) -> X
            if let Expr::Call(c) = e {
                if tnorm(&c.func) == "Arc::new" && c.args.len() == 1 {
                    if let Expr::Call(c2) = &c.args[0] {
                        let f2 = tnorm(&c2.func);
                        if (f2 == "RwLock::new" || f2 == "Mutex::new") && c2.args.len() == 1 {
                            let x = &c2.args[0];
                            repl = Some(parse_quote!(#x));
                        }
                    }
                }
            }
            if let Some(r) = repl {
                *e = r;
                self.bump("R7.lock");
                return;
            }
        }
        if self.enabled("R11") {
            // `if let PAT(&x) = E { .. }`  ->  `if let PAT(__p) = E { let x = *__p; .. }`
            if let Expr::If(ifx) = e {
                if let Expr::Let(l) = &mut *ifx.cond {
                    let mut rp = RefPats { out: vec![], next: self.refpat };
                    rp.visit_pat_mut(&mut l.pat);
                    self.refpat = rp.next;
                    if !rp.out.is_empty() {
                        let mut pre: Vec<Stmt> = Vec::new();
                        for (p, id) in &rp.out {
                            pre.push(parse_quote!(let #p = *#id;));
                        }
                        pre.extend(std::mem::take(&mut ifx.then_branch.stmts));
                        ifx.then_branch.stmts = pre;
                        self.bump("R11.refpat");
                    }
                }
            }
            if let Expr::Match(m) = e {
                for arm in m.arms.iter_mut() {
                    let mut rp = RefPats { out: vec![], next: self.refpat };
                    rp.visit_pat_mut(&mut arm.pat);
                    self.refpat = rp.next;
                    if !rp.out.is_empty() {
                        let lets: Vec<Stmt> = rp.out.iter().map(|(p, id)| -> Stmt { parse_quote!(let #p = *#id;) }).collect();
                        let b = &arm.body;
                        arm.body = Box::new(parse_quote!({ #(#lets)* #b }));
                        self.bump("R11.refpat");
                    }
                }
            }
        }
        if self.enabled("R25") {
            // `E as f64` -> `(E).vx_as_f64()` (Verus gives int->float casts no meaning; prelude/f64_ops.vrs: a deterministic
            // function of the mathematical value of E for the integer types, the identity on f64)
            let mut repl: Option<Expr> = None;
            if let Expr::Cast(c) = e {
                if c.ty.to_token_stream().to_string() == "f64" {
                    let inner = &c.expr;
                    repl = Some(parse_quote!((#inner).vx_as_f64()));
                }
            }
            if let Some(r) = repl {
                *e = r;
                self.bump("R25.cast_f64");
                return;
            }
        }
        if self.enabled("R24") {
            // match guards: Verus (this version) loses the final value of a `&mut` parameter that is assigned in an arm of a match
            // that has a guard => `P if G => A, rest..` becomes `P => if G { A } else { match S { rest.. } }, rest..`
            let mut repl: Option<Expr> = None;
            if let Expr::Match(m) = e {
                let ng = m.arms.iter().filter(|a| a.guard.is_some()).count();
                if ng > 0 && ng <= 5 {
                    let mut arms = m.arms.clone();
                    for a in arms.iter_mut() {
                        if a.comma.is_none() {
                            a.comma = Some(Default::default());
                        }
                    }
                    if is_place_expr(&m.expr) {
                        let sc = (*m.expr).clone();
                        let low = lower_guards(&arms, &sc);
                        repl = Some(parse_quote!(match #sc { #(#low)* }));
                    } else {
                        let t = self.fresh("m");
                        let sc0 = &m.expr;
                        let sc: Expr = parse_quote!(#t);
                        let low = lower_guards(&arms, &sc);
                        repl = Some(parse_quote!({ let #t = #sc0; match #t { #(#low)* } }));
                    }
                }
            }
            if let Some(r) = repl {
                *e = r;
                self.bump("R24.match_guard");
                return;
            }
        }
        if self.enabled("R21") {
            // `a |= b` / `a &= b` (Verus: no non-short-circuit bool operators) -> `{ let t = b; a = a || t; }` (b is evaluated first, once)
            let mut repl: Option<Expr> = None;
            if let Expr::Binary(b) = e {
                let which = match b.op {
                    BinOp::BitOrAssign(_) => Some(true),
                    BinOp::BitAndAssign(_) => Some(false),
                    _ => None,
                };
                if let Some(is_or) = which {
                    let l = &b.left;
                    let r = &b.right;
                    let t = self.fresh("b");
                    repl = Some(if is_or { parse_quote!({ let #t: bool = #r; #l = #l || #t; }) } else { parse_quote!({ let #t: bool = #r; #l = #l && #t; }) });
                }
            }
            if let Some(r) = repl {
                *e = r;
                self.bump("R21.bool_assign_op");
                return;
            }
        }
        if self.enabled("R3") {
            // `opt.is_some_and(|x| B)` -> `match opt { Some(x) => B, None => false }`
            let mut repl: Option<Expr> = None;
            if let Expr::MethodCall(mc) = e {
                if mc.method == "is_some_and" && mc.args.len() == 1 {
                    if let Some(c) = closure_of(&mc.args[0]) {
                        if let Some(p) = closure_single_pat(&c) {
                            let recv = &mc.receiver;
                            let b = &c.body;
                            repl = Some(parse_quote!(match #recv { Some(#p) => #b, None => false }));
                        }
                    }
                }
            }
            if let Some(r) = repl {
                *e = r;
                self.bump("R3.is_some_and");
                return;
            }
        }
        if self.enabled("R20") {
            // M.entry(K).or_default().push(V)  (also push_back / insert; or_insert_with(Vec::new) etc.) -> vx_entry_or_default_<m>(&mut M, K, V)
            let mut repl: Option<Expr> = None;
            if let Expr::MethodCall(outer) = e {
                let m = outer.method.to_string();
                if outer.args.len() == 1 && matches!(m.as_str(), "push" | "push_back" | "insert") {
                    if let Expr::MethodCall(mid) = &*outer.receiver {
                        let mm = mid.method.to_string();
                        let default_like = (mm == "or_default" && mid.args.is_empty())
                            || (mm == "or_insert_with"
                                && mid.args.len() == 1
                                && matches!(
                                    tnorm(&mid.args[0]).as_str(),
                                    "Vec::new" | "VecDeque::new" | "HashSet::new" | "Default::default" | "std::collections::HashSet::new" | "std::collections::VecDeque::new"
                                ));
                        if default_like {
                            if let Expr::MethodCall(inner) = &*mid.receiver {
                                if inner.method == "entry" && inner.args.len() == 1 {
                                    let map = &inner.receiver;
                                    let k = &inner.args[0];
                                    let v = &outer.args[0];
                                    let f = Ident::new(&format!("vx_entry_or_default_{}", m), Span::call_site());
                                    let mref: Expr = match &**map {
                                        Expr::Path(_) => parse_quote!(&mut *#map),
                                        _ => parse_quote!(&mut #map),
                                    };
                                    repl = Some(parse_quote!(#f(#mref, #k, #v)));
                                }
                            }
                        }
                    }
                }
            }
            if let Some(r) = repl {
                *e = r;
                self.bump("R20.entry_or_default");
                return;
            }
        }
        if self.enabled("R19") {
            // Option combinators with a zero-argument closure -> match
            let mut repl: Option<Expr> = None;
            if let Expr::MethodCall(mc) = e {
                let name = mc.method.to_string();
                if mc.args.len() == 1 && matches!(name.as_str(), "or_else" | "unwrap_or_else" | "ok_or_else") {
                    if let Some(c) = closure_of(&mc.args[0]) {
                        if c.inputs.is_empty() {
                            let recv = &mc.receiver;
                            let b = &c.body;
                            let x = self.fresh("s");
                            repl = Some(match name.as_str() {
                                "or_else" => parse_quote!(match #recv { Some(#x) => Some(#x), None => #b }),
                                "unwrap_or_else" => parse_quote!(match #recv { Some(#x) => #x, None => #b }),
                                _ => parse_quote!(match #recv { Some(#x) => Ok(#x), None => Err(#b) }),
                            });
                        }
                    }
                }
            }
            if repl.is_none() {
                // Result combinators whose closure takes the error: `X.unwrap_or_else(|e| B)` / `X.map_err(|e| B)` (Verus rejects `|_|`)
                if let Expr::MethodCall(mc) = e {
                    let name = mc.method.to_string();
                    if mc.args.len() == 1 && matches!(name.as_str(), "unwrap_or_else" | "map_err") {
                        if let Some(c) = closure_of(&mc.args[0]) {
                            if let Some(p) = closure_single_pat(&c) {
                                let recv = &mc.receiver;
                                let b = &c.body;
                                let x = self.fresh("s");
                                repl = Some(if name == "unwrap_or_else" {
                                    parse_quote!(match #recv { Ok(#x) => #x, Err(#p) => #b })
                                } else {
                                    parse_quote!(match #recv { Ok(#x) => Ok(#x), Err(#p) => Err(#b) })
                                });
                            }
                        }
                    }
                }
            }
            if repl.is_none() {
                if let Expr::MethodCall(mc) = e {
                    if mc.method == "and_then" && mc.args.len() == 1 {
                        if let Some(c) = closure_of(&mc.args[0]) {
                            if let Some(p) = closure_single_pat(&c) {
                                let recv = &mc.receiver;
                                let b = &c.body;
                                repl = Some(parse_quote!(match #recv { Some(#p) => #b, None => None }));
                            }
                        }
                    }
                }
            }
            if repl.is_none() {
                // `X.map_or(D, |p| B)` with a literal / path default D (no effects, so evaluating it only in the None arm is the same),
                // `X.map_or_else(|| D, |p| B)`  ->  `match X { Some(p) => B, None => D }`
                if let Expr::MethodCall(mc) = e {
                    let name = mc.method.to_string();
                    if mc.args.len() == 2 && matches!(name.as_str(), "map_or" | "map_or_else") {
                        let d: Option<Expr> = if name == "map_or" {
                            match &mc.args[0] {
                                Expr::Lit(_) | Expr::Path(_) => Some(mc.args[0].clone()),
                                _ => None,
                            }
                        } else {
                            match closure_of(&mc.args[0]) {
                                Some(c0) if c0.inputs.is_empty() => Some((*c0.body).clone()),
                                _ => match &mc.args[0] {
                                    // a function path as the default: `map_or_else(Vec::new, ..)`
                                    Expr::Path(fp) => Some(parse_quote!(#fp())),
                                    _ => None,
                                },
                            }
                        };
                        if let (Some(d), Some(c)) = (d, closure_of(&mc.args[1])) {
                            if let Some(p) = closure_single_pat(&c) {
                                if !matches!(p, Pat::Reference(_) | Pat::Wild(_)) {
                                    let recv = &mc.receiver;
                                    let b = &c.body;
                                    repl = Some(parse_quote!(match #recv { Some(#p) => #b, None => #d }));
                                }
                            }
                        }
                    }
                }
            }
            if let Some(r) = repl {
                *e = r;
                self.bump("R19.option_combinator");
                return;
            }
        }
        if self.enabled("R12") {
            if let Expr::MethodCall(mc) = e {
                if mc.method == "retain" && mc.args.len() == 1 {
                    if let Some(c) = closure_of(&mc.args[0]) {
                        if let Some(p0) = closure_single_pat(&c) {
                            let recv = &mc.receiver;
                            let b0 = &c.body;
                            // `|&x| B`  ->  bind the reference and deref inside (Verus: no reference patterns)
                            let (p, b): (Pat, Expr) = match &p0 {
                                Pat::Reference(pr) if pr.mutability.is_none() => {
                                    let inner = &pr.pat;
                                    let rp = self.fresh("p");
                                    (parse_quote!(#rp), parse_quote!({ let #inner = *#rp; #b0 }))
                                }
                                _ => (p0.clone(), (**b0).clone()),
                            };
                            let p = &p;
                            let b = &b;
                            let o = self.fresh("o");
                            let ne: Expr = if self.retain == "deque" {
                                let n = self.fresh("n");
                                let i = self.fresh("i");
                                parse_quote!({
                                    let #n = #recv.len();
                                    let mut #i: usize = 0;
                                    while #i < #n {
                                        if let Some(#o) = #recv.pop_front() {
                                            if { let #p = &#o; #b } { #recv.push_back(#o); }
                                        }
                                        #i += 1;
                                    }
                                })
                            } else {
                                let old = self.fresh("old");
                                parse_quote!({
                                    let mut #old = Vec::new();
                                    std::mem::swap(&mut #recv, &mut #old);
                                    for #o in #old {
                                        if { let #p = &#o; #b } { #recv.push(#o); }
                                    }
                                })
                            };
                            *e = ne;
                            self.bump("R12.retain");
                            return;
                        }
                    }
                }
            }
        }
        if self.enabled("R5") {
            if let Expr::MethodCall(mc) = e {
                if mc.method == "extend" && mc.args.len() == 1 && mc.turbofish.is_none() {
                    {
                        let t = self.fresh("t");
                        let recv = &mc.receiver;
                        let arg = &mc.args[0];
                        let ne: Expr = parse_quote!({ let mut #t = #arg; #recv.append(&mut #t); });
                        *e = ne;
                        self.bump("R5.extend");
                        return;
                    }
                }
            }
        }
        if self.enabled("R1") {
            if let Some(n) = self.lower_sink(e) {
                *e = n;
                // new loops may contain ref patterns
                visit_mut::visit_expr_mut(self, e);
            }
        }
    }

    fn visit_expr_for_loop_mut(&mut self, f: &mut ExprForLoop) {
        // R4: for (i, x) in X.iter().enumerate()
        if self.enabled("R4") {
            if let Expr::MethodCall(mc) = &*f.expr {
                if mc.method == "enumerate" && mc.args.is_empty() {
                    if let Expr::MethodCall(inner) = &*mc.receiver {
                        if inner.method == "iter" && inner.args.is_empty() {
                            if let Pat::Tuple(pt) = &*f.pat {
                                if pt.elems.len() == 2 {
                                    if let Some(idx) = pat_as_ident(&pt.elems[0]) {
                                        let xp = pt.elems[1].clone();
                                        let recv = &inner.receiver;
                                        let body_stmts = &f.body.stmts;
                                        let nb: Block = parse_quote!({ let #xp = &#recv[#idx]; #(#body_stmts)* });
                                        f.pat = Box::new(parse_quote!(#idx));
                                        f.expr = Box::new(parse_quote!(0..#recv.len()));
                                        f.body = nb;
                                        self.bump("R4.enumerate");
                                    }
                                }
                            }
                        }
                    }
                }
            }
        }
        // R13: `for x in &mut V` / `for x in V.iter_mut()` -> counted while loop over `&mut V[i]`
        // (done in visit_expr_mut because the loop expression itself is replaced)
        // R16: `for x in SET` (by value, Copy elements) -> `for __r in SET.iter() { let x = *__r; .. }`
        if let Expr::Path(p) = &*f.expr {
            if let Some(id) = p.path.get_ident() {
                // `setiter=vec:NAME`: consuming iteration over a set of non-Copy elements -> over `vx_set_into_vec(NAME)` (the unit declares it:
                // external_body, every element exactly once in an unspecified order, or no contract at all)
                if self.setiter.iter().any(|n| n.strip_prefix("vec:").map(|x| id == x).unwrap_or(false)) {
                    let ne: Expr = parse_quote!(vx_set_into_vec(#id));
                    f.expr = Box::new(ne);
                    self.bump("R16.set_by_value_vec");
                } else
                if self.setiter.iter().any(|n| id == n) {
                    let r = self.fresh("r");
                    let pat = &f.pat;
                    let stmts = &f.body.stmts;
                    let nb: Block = parse_quote!({ let #pat = *#r; #(#stmts)* });
                    let ne: Expr = parse_quote!(#id.iter());
                    f.pat = Box::new(parse_quote!(#r));
                    f.expr = Box::new(ne);
                    f.body = nb;
                    self.bump("R16.set_by_value");
                }
            }
        }
        // R11: `for &x in ..` -> `for __r in .. { let x = *__r; .. }`
        if self.enabled("R11") {
            if let Pat::Reference(pr) = &*f.pat {
                let inner = (*pr.pat).clone();
                let r = self.fresh("r");
                let stmts = &f.body.stmts;
                let nb: Block = parse_quote!({ let #inner = *#r; #(#stmts)* });
                f.pat = Box::new(parse_quote!(#r));
                f.body = nb;
                self.bump("R11.refpat");
            }
        }
        visit_mut::visit_expr_for_loop_mut(self, f);
    }
}

fn expr_attrs(e: &Expr) -> &[Attribute] {
    match e {
        Expr::If(x) => &x.attrs,
        Expr::Block(x) => &x.attrs,
        Expr::Call(x) => &x.attrs,
        Expr::MethodCall(x) => &x.attrs,
        Expr::Match(x) => &x.attrs,
        Expr::Assign(x) => &x.attrs,
        Expr::ForLoop(x) => &x.attrs,
        Expr::While(x) => &x.attrs,
        Expr::Macro(x) => &x.attrs,
        Expr::Return(x) => &x.attrs,
        _ => &[],
    }
}



/// A3: `crate::a::b::Item[::Variant]` / `super::..` -> `Item[::Variant]` (a unit is one flat namespace).
/// Module segments are recognised by the Rust naming convention (lower-case initial).
fn shorten_path(p: &mut Path) -> bool {
    let first = match p.segments.first() {
        Some(s) => s.ident.to_string(),
        None => return false,
    };
    if !(first == "crate" || first == "super" || (first == "self" && p.segments.len() > 1)) {
        return false;
    }
    let segs: Vec<PathSegment> = p.segments.iter().cloned().collect();
    let mut start = 1;
    while start < segs.len() - 1 {
        let n = segs[start].ident.to_string();
        if n == "super" || n.chars().next().map(|c| c.is_lowercase()).unwrap_or(false) {
            start += 1;
        } else {
            break;
        }
    }
    let mut np = punctuated::Punctuated::new();
    for s in &segs[start..] {
        np.push(s.clone());
    }
    p.segments = np;
    p.leading_colon = None;
    true
}
struct PathShort {
    n: u32,
}
impl VisitMut for PathShort {
    fn visit_path_mut(&mut self, p: &mut Path) {
        if shorten_path(p) {
            self.n += 1;
        }
        visit_mut::visit_path_mut(self, p);
    }
}


/// does this loop body contain a `continue` that belongs to it (not to a nested loop / closure)?
struct HasContinue {
    found: bool,
}
impl<'ast> syn::visit::Visit<'ast> for HasContinue {
    fn visit_expr(&mut self, e: &'ast Expr) {
        match e {
            Expr::Continue(c) if c.label.is_none() => self.found = true,
            Expr::ForLoop(_) | Expr::While(_) | Expr::Loop(_) | Expr::Closure(_) => {}
            _ => syn::visit::visit_expr(self, e),
        }
    }
}


/// R18: arm abstraction
struct KeepArms {
    keep: Vec<String>,
    havoc: Vec<String>,
    n: u32,
}
impl VisitMut for KeepArms {
    fn visit_expr_match_mut(&mut self, m: &mut ExprMatch) {
        let hit = |p: &Pat, keep: &Vec<String>| {
            // (R18 runs before the path shortening A3: `super::ActionResult::Retract(..)` / `crate::x::ActionResult::Retract` match the
            // prefix `ActionResult::Retract` too)
            let mut pc = p.clone();
            let mut ps = PathShort { n: 0 };
            ps.visit_pat_mut(&mut pc);
            let t0 = tnorm(&pc);
            let t = t0.trim_start_matches("super::").trim_start_matches("self::").to_string();
            keep.iter().any(|k| {
                let k = norm(k);
                t.starts_with(&k) && !t[k.len()..].chars().next().map(|c| c.is_alphanumeric() || c == '_').unwrap_or(false)
            })
        };
        if m.arms.iter().any(|a| hit(&a.pat, &self.keep)) {
            for a in m.arms.iter_mut() {
                if !hit(&a.pat, &self.keep) {
                    let hv: Vec<Stmt> = self
                        .havoc
                        .iter()
                        .map(|h| -> Stmt {
                            let id = Ident::new(h, Span::call_site());
                            parse_quote!(vx_havoc(&mut *#id);)
                        })
                        .collect();
                    a.body = Box::new(parse_quote!({ #(#hv)* vx_unmodelled() }));
                    a.guard = None;
                    self.n += 1;
                }
            }
        }
        visit_mut::visit_expr_match_mut(self, m);
    }
}


/// gives `.collect()` in result position of a Vec-returning function the turbofish `::<Vec<_>>` so that R1 can lower it
struct TailCollect {
    n: u32,
    /// false: `.collect()` of a Vec-returning function; true: `.sum()` of an f64-returning function
    sum_f64: bool,
}
impl TailCollect {
    fn fix(&mut self, e: &mut Expr) {
        match e {
            Expr::MethodCall(mc) if !self.sum_f64 && mc.method == "collect" && mc.args.is_empty() && mc.turbofish.is_none() => {
                let tf: AngleBracketedGenericArguments = parse_quote!(::<Vec<_>>);
                mc.turbofish = Some(tf);
                self.n += 1;
            }
            Expr::MethodCall(mc) if self.sum_f64 && mc.method == "sum" && mc.args.is_empty() && mc.turbofish.is_none() => {
                let tf: AngleBracketedGenericArguments = parse_quote!(::<f64>);
                mc.turbofish = Some(tf);
                self.n += 1;
            }
            Expr::If(i) => {
                if let Some(Stmt::Expr(t, None)) = i.then_branch.stmts.last_mut() {
                    self.fix(t);
                }
                if let Some((_, el)) = &mut i.else_branch {
                    self.fix(el);
                }
            }
            Expr::Block(b) => {
                if let Some(Stmt::Expr(t, None)) = b.block.stmts.last_mut() {
                    self.fix(t);
                }
            }
            Expr::Match(m) => {
                for a in m.arms.iter_mut() {
                    self.fix(&mut a.body);
                }
            }
            _ => {}
        }
    }
}
impl VisitMut for TailCollect {
    fn visit_expr_return_mut(&mut self, r: &mut ExprReturn) {
        if let Some(e) = &mut r.expr {
            self.fix(e);
        }
        visit_mut::visit_expr_return_mut(self, r);
    }
    fn visit_expr_closure_mut(&mut self, _c: &mut ExprClosure) {}
}


// ---------------------------------------------------------------------------------------------
// R23: inlining of private helpers that are not under contract
// ---------------------------------------------------------------------------------------------
struct HasReturnOrTry {
    found: bool,
}
impl<'ast> syn::visit::Visit<'ast> for HasReturnOrTry {
    fn visit_expr(&mut self, e: &'ast Expr) {
        match e {
            Expr::Return(_) | Expr::Try(_) => self.found = true,
            Expr::Closure(_) => {}
            _ => syn::visit::visit_expr(self, e),
        }
    }
    fn visit_item(&mut self, _i: &'ast Item) {}
}
struct HasLoopOrClosure {
    found: bool,
}
impl<'ast> syn::visit::Visit<'ast> for HasLoopOrClosure {
    fn visit_expr(&mut self, e: &'ast Expr) {
        match e {
            Expr::ForLoop(_) | Expr::While(_) | Expr::Loop(_) | Expr::Closure(_) => self.found = true,
            _ => syn::visit::visit_expr(self, e),
        }
    }
    fn visit_item(&mut self, _i: &'ast Item) {}
}
struct CallsName<'a> {
    name: &'a str,
    found: bool,
}
impl<'a, 'ast> syn::visit::Visit<'ast> for CallsName<'a> {
    fn visit_expr_method_call(&mut self, m: &'ast ExprMethodCall) {
        if m.method == self.name {
            self.found = true;
        }
        syn::visit::visit_expr_method_call(self, m);
    }
    fn visit_expr_call(&mut self, c: &'ast ExprCall) {
        if let Expr::Path(p) = &*c.func {
            if p.path.segments.last().map(|s| s.ident == self.name).unwrap_or(false) {
                self.found = true;
            }
        }
        syn::visit::visit_expr_call(self, c);
    }
}

#[derive(Clone)]
struct Helper {
    /// straight-line reader: `&self` / by-value / `&T` parameters only, no loop, no closure — inlining it is exact and needs no proof aid
    exact: bool,
    /// declared return type (kept as a typed `let` around the inlined body so that inference sees what the call site saw)
    ret: Option<Type>,
    has_self: bool,
    params: Vec<Ident>,
    tys: Vec<Type>,
    block: Block,
}

/// helpers of the same impl (methods) and of the same file (free fns) that can be inlined: no generics, identifier
/// parameters, no `return` / `?` in the body, not recursive
fn collect_helpers(items: &[Item], self_ty: Option<&str>) -> BTreeMap<String, Helper> {
    let mut out = BTreeMap::new();
    let mut add = |sig: &Signature, block: &Block, is_method: bool| {
        if !sig.generics.params.is_empty() || sig.asyncness.is_some() || sig.unsafety.is_some() {
            return;
        }
        let mut has_self = false;
        let mut params = Vec::new();
        let mut tys = Vec::new();
        let mut exact = true;
        for a in &sig.inputs {
            match a {
                FnArg::Receiver(r) => {
                    if r.reference.is_none() {
                        return; // by-value self: moving semantics, not inlined
                    }
                    if r.mutability.is_some() {
                        exact = false;
                    }
                    has_self = true;
                }
                FnArg::Typed(t) => match &*t.pat {
                    Pat::Ident(pi) if pi.by_ref.is_none() && pi.subpat.is_none() => {
                        if t.ty.to_token_stream().to_string().contains('\'') {
                            return; // named lifetimes in a parameter type: not inlined
                        }
                        if t.ty.to_token_stream().to_string().contains("mut") {
                            exact = false;
                        }
                        params.push(pi.ident.clone());
                        tys.push((*t.ty).clone());
                    }
                    _ => return,
                },
            }
        }
        if !is_method && has_self {
            return;
        }
        let mut h = HasReturnOrTry { found: false };
        syn::visit::Visit::visit_block(&mut h, block);
        if h.found {
            return;
        }
        let name = sig.ident.to_string();
        let mut c = CallsName { name: &name, found: false };
        syn::visit::Visit::visit_block(&mut c, block);
        if c.found {
            return;
        }
        let mut hl = HasLoopOrClosure { found: false };
        syn::visit::Visit::visit_block(&mut hl, block);
        if hl.found {
            exact = false;
        }
        let ret: Option<Type> = match &sig.output {
            ReturnType::Type(_, t) => {
                let ts = t.to_token_stream().to_string();
                if ts.contains('\'') || ts.contains("impl ") || ts.contains("Self") || ts.contains('&') {
                    None
                } else {
                    Some((**t).clone())
                }
            }
            ReturnType::Default => None,
        };
        out.insert(name, Helper { exact, ret, has_self, params, tys, block: block.clone() });
    };
    for it in items {
        match it {
            Item::Fn(f) => add(&f.sig, &f.block, false),
            Item::Impl(im) if im.trait_.is_none() => {
                if let Some(t) = self_ty {
                    if type_name(&im.self_ty) == t {
                        for ii in &im.items {
                            if let ImplItem::Fn(f) = ii {
                                add(&f.sig, &f.block, true);
                            }
                        }
                    }
                }
            }
            _ => {}
        }
    }
    out
}

struct Inliner<'a> {
    helpers: &'a BTreeMap<String, Helper>,
    known: &'a [String],
    self_ty: Option<String>,
    n: u32,
    n_inexact: u32,
    depth: u32,
    uniq: u32,
}
impl<'a> Inliner<'a> {
    fn expand(&mut self, h: &Helper, args: Vec<Expr>) -> Expr {
        self.uniq += 1;
        if !h.exact {
            self.n_inexact += 1;
        }
        let u = self.uniq;
        let tmps: Vec<Ident> = (0..args.len()).map(|i| Ident::new(&format!("__vx_arg{}_{}", u, i), Span::call_site())).collect();
        let stmts = &h.block.stmts;
        // the declared parameter types are kept so that the coercions of the call (`&String` -> `&str`, implicit reborrow of a
        // `&mut` variable, ..) still happen.  Arguments that are plain variables are bound directly (a typed `let` reborrows a
        // reference instead of moving it); anything else is evaluated into a temporary first, in argument order.
        let mut pre: Vec<Stmt> = Vec::new();
        let mut binds: Vec<Stmt> = Vec::new();
        let mut bound: Vec<String> = Vec::new();
        for (i, a) in args.iter().enumerate() {
            let p = &h.params[i];
            let t = &h.tys[i];
            let simple = match a {
                Expr::Path(ep) => ep.path.get_ident().map(|id| !bound.iter().any(|b| id == b)).unwrap_or(false),
                _ => false,
            };
            if simple {
                binds.push(parse_quote!(let #p: #t = #a;));
            } else {
                let tmp = &tmps[i];
                pre.push(parse_quote!(let #tmp = #a;));
                binds.push(parse_quote!(let #p: #t = #tmp;));
            }
            bound.push(p.to_string());
        }
        let mut e: Expr = match &h.ret {
            Some(rt) => {
                let rv = Ident::new(&format!("__vx_ret{}", u), Span::call_site());
                parse_quote!({
                    #(#pre)*
                    #(#binds)*
                    let #rv: #rt = { #(#stmts)* };
                    #rv
                })
            }
            None => parse_quote!({
                #(#pre)*
                #(#binds)*
                #(#stmts)*
            }),
        };
        // helpers calling helpers
        if self.depth < 3 {
            self.depth += 1;
            self.visit_expr_mut(&mut e);
            self.depth -= 1;
        }
        e
    }
}
impl<'a> VisitMut for Inliner<'a> {
    fn visit_expr_mut(&mut self, e: &mut Expr) {
        visit_mut::visit_expr_mut(self, e);
        let mut repl: Option<Expr> = None;
        match e {
            Expr::MethodCall(mc) => {
                let name = mc.method.to_string();
                let on_self = matches!(&*mc.receiver, Expr::Path(p) if p.path.is_ident("self"));
                if on_self && mc.turbofish.is_none() && !self.known.iter().any(|k| *k == name) {
                    if let Some(h) = self.helpers.get(&name) {
                        if h.has_self && h.params.len() == mc.args.len() {
                            let h = h.clone();
                            let args: Vec<Expr> = mc.args.iter().cloned().collect();
                            repl = Some(self.expand(&h, args));
                        }
                    }
                }
            }
            Expr::Call(c) => {
                if let Expr::Path(p) = &*c.func {
                    let segs: Vec<String> = p.path.segments.iter().map(|s| s.ident.to_string()).collect();
                    let name = segs.last().cloned().unwrap_or_default();
                    let qual_ok = match segs.len() {
                        1 => true,
                        2 => segs[0] == "Self" || Some(&segs[0]) == self.self_ty.as_ref(),
                        _ => false,
                    };
                    if qual_ok && !self.known.iter().any(|k| *k == name) {
                        if let Some(h) = self.helpers.get(&name) {
                            if !h.has_self && h.params.len() == c.args.len() {
                                let h = h.clone();
                                let args: Vec<Expr> = c.args.iter().cloned().collect();
                                repl = Some(self.expand(&h, args));
                            }
                        }
                    }
                }
            }
            _ => {}
        }
        if let Some(r) = repl {
            *e = r;
            self.n += 1;
        }
    }
}

// ---------------------------------------------------------------------------------------------
// R7: lock elision (a lock is modelled as exclusive access; see DESIGN §2.2)
// ---------------------------------------------------------------------------------------------
fn last_seg(t: &Type) -> Option<&PathSegment> {
    if let Type::Path(p) = t {
        p.path.segments.last()
    } else {
        None
    }
}
fn single_generic(seg: &PathSegment) -> Option<Type> {
    if let PathArguments::AngleBracketed(a) = &seg.arguments {
        if a.args.len() == 1 {
            if let GenericArgument::Type(t) = &a.args[0] {
                return Some(t.clone());
            }
        }
    }
    None
}
/// Arc<RwLock<T>> | Arc<Mutex<T>> | RwLock<T> | Mutex<T>  ->  T
fn elide_lock_type(t: &Type) -> Option<Type> {
    let seg = last_seg(t)?;
    if seg.ident == "Arc" {
        let inner = single_generic(seg)?;
        let s2 = last_seg(&inner)?;
        if s2.ident == "RwLock" || s2.ident == "Mutex" {
            return single_generic(s2);
        }
        return None;
    }
    if seg.ident == "RwLock" || seg.ident == "Mutex" {
        return single_generic(seg);
    }
    None
}
struct LockTypes {
    n: u32,
}
impl VisitMut for LockTypes {
    fn visit_type_mut(&mut self, t: &mut Type) {
        if let Some(inner) = elide_lock_type(t) {
            *t = inner;
            self.n += 1;
        }
        visit_mut::visit_type_mut(self, t);
    }
}

/// R11: replace `&ident` sub-patterns by fresh identifiers; returns the (name, fresh) pairs to deref
struct RefPats {
    out: Vec<(Pat, Ident)>,
    next: u32,
}
impl VisitMut for RefPats {
    fn visit_pat_mut(&mut self, p: &mut Pat) {
        if let Pat::Reference(r) = p {
            if r.mutability.is_none() {
                if let Pat::Ident(_) = &*r.pat {
                    self.next += 1;
                    let id = Ident::new(&format!("__vx_p{}", self.next), Span::call_site());
                    self.out.push(((*r.pat).clone(), id.clone()));
                    *p = parse_quote!(#id);
                    return;
                }
            }
        }
        visit_mut::visit_pat_mut(self, p);
    }
}

// ---------------------------------------------------------------------------------------------
// pinned replacements
// ---------------------------------------------------------------------------------------------
struct Replacer {
    stmt: Vec<(Replace, u32)>,
    expr: Vec<(Replace, u32)>,
    err: Option<String>,
}
impl VisitMut for Replacer {
    fn visit_block_mut(&mut self, b: &mut Block) {
        for s in b.stmts.iter_mut() {
            let t = tnorm(s);
            let mut done = false;
            for (r, n) in self.stmt.iter_mut() {
                if norm(&r.text) == t || norm(&r.text) == t.trim_end_matches(';') {
                    match syn::parse_str::<Stmt>(&r.with).or_else(|_| syn::parse_str::<Stmt>(&format!("{};", r.with))) {
                        Ok(ns) => {
                            *s = ns;
                            *n += 1;
                            done = true;
                        }
                        Err(e) => self.err = Some(format!("replace_stmt parse `{}`: {e}", r.with)),
                    }
                    break;
                }
            }
            if !done {
                visit_mut::visit_stmt_mut(self, s);
            }
        }
    }
    fn visit_expr_mut(&mut self, e: &mut Expr) {
        let t = tnorm(e);
        for (r, n) in self.expr.iter_mut() {
            if norm(&r.text) == t {
                match syn::parse_str::<Expr>(&r.with) {
                    Ok(ne) => {
                        *e = ne;
                        *n += 1;
                        return;
                    }
                    Err(er) => self.err = Some(format!("replace_expr parse `{}`: {er}", r.with)),
                }
            }
        }
        visit_mut::visit_expr_mut(self, e);
    }
}

// ---------------------------------------------------------------------------------------------
// markers
// ---------------------------------------------------------------------------------------------
struct Marker {
    do_loops: bool,
    next_loop: u32,
    kinds: Vec<String>,
    anchors: Vec<Anchor>,
    found: BTreeMap<u32, usize>,
    /// block nesting depth while visiting, and the depth at which each anchor was placed (part of the function's SHAPE)
    depth: u32,
    placed_depth: BTreeMap<u32, u32>,
    ctrl: Vec<String>,
}

fn mac_stmt(name: &str, arg: Option<u32>) -> Stmt {
    let id = Ident::new(name, Span::call_site());
    match arg {
        Some(k) => {
            let l = LitInt::new(&k.to_string(), Span::call_site());
            parse_quote!(#id!(#l);)
        }
        None => parse_quote!(#id!();),
    }
}

fn force_semi(s: &mut Stmt) {
    if let Stmt::Expr(_, semi @ None) = s {
        *semi = Some(Default::default());
    }
}

impl Marker {
    fn mark_loop_body(&mut self, body: &mut Block, kind: &str) -> u32 {
        let k = self.next_loop;
        self.next_loop += 1;
        self.kinds.push(kind.to_string());
        self.ctrl.push(kind.to_string());
        // recurse first so inner loops get later ordinals in pre-order: we assigned k already
        self.visit_block_mut(body);
        body.stmts.insert(0, mac_stmt("__vx_loop", Some(k)));
        if let Some(last) = body.stmts.last_mut() {
            force_semi(last);
        }
        body.stmts.push(mac_stmt("__vx_loopend", Some(k)));
        k
    }
}

impl VisitMut for Marker {
    fn visit_block_mut(&mut self, b: &mut Block) {
        // anchors: match statements of this block
        self.depth += 1;
        let mut out: Vec<Stmt> = Vec::new();
        for mut s in std::mem::take(&mut b.stmts) {
            let t = tnorm(&s);
            let mut before = Vec::new();
            let mut after = Vec::new();
            for a in &self.anchors {
                let at = norm(&a.text);
                let hit = (!at.is_empty() && t.starts_with(&at)) || a.alts.iter().any(|x| !norm(x).is_empty() && t.starts_with(&norm(x)));
                if hit {
                    let c = self.found.entry(a.id).or_insert(0);
                    let this = *c;
                    *c += 1;
                    if a.nth.unwrap_or(0) == this {
                        self.placed_depth.insert(a.id, self.depth);
                        if a.pos == "before" {
                            before.push(a.id);
                        } else {
                            after.push(a.id);
                        }
                    }
                }
            }
            self.visit_stmt_mut(&mut s);
            for id in before {
                out.push(mac_stmt("__vx_at", Some(id)));
            }
            if !after.is_empty() {
                force_semi(&mut s);
            }
            out.push(s);
            for id in after {
                out.push(mac_stmt("__vx_at", Some(id)));
            }
        }
        b.stmts = out;
        self.depth -= 1;
    }
    fn visit_expr_mut(&mut self, e: &mut Expr) {
        if !self.do_loops {
            return visit_mut::visit_expr_mut(self, e);
        }
        match e {
            Expr::While(w) => {
                self.visit_expr_mut(&mut w.cond);
                self.mark_loop_body(&mut w.body, "while");
            }
            Expr::Loop(l) => {
                self.mark_loop_body(&mut l.body, "loop");
            }
            Expr::ForLoop(f) => {
                self.visit_expr_mut(&mut f.expr);
                let k = self.mark_loop_body(&mut f.body, "for");
                let it = &f.expr;
                let l = LitInt::new(&k.to_string(), Span::call_site());
                let ne: Expr = parse_quote!(__vx_iter!(#l, #it));
                f.expr = Box::new(ne);
            }
            _ => {
                let c = match e {
                    Expr::If(_) => "if",
                    Expr::Match(_) => "match",
                    Expr::Return(_) => "return",
                    Expr::Break(_) => "break",
                    Expr::Continue(_) => "continue",
                    Expr::Try(_) => "?",
                    _ => "",
                };
                if !c.is_empty() {
                    self.ctrl.push(c.to_string());
                }
                visit_mut::visit_expr_mut(self, e)
            }
        }
    }
}

// ---------------------------------------------------------------------------------------------
// item lookup
// ---------------------------------------------------------------------------------------------
struct FoundFn {
    impl_header: Option<String>,
    attrs: Vec<Attribute>,
    sig: Signature,
    block: Block,
}

fn type_name(t: &Type) -> String {
    match t {
        Type::Path(p) => p.path.segments.last().map(|s| s.ident.to_string()).unwrap_or_default(),
        _ => t.to_token_stream().to_string(),
    }
}

fn find_fn(items: &[Item], path: &str, feats: &[String]) -> std::result::Result<FoundFn, String> {
    // path forms:  name | Type::name | <Trait for Type>::name | mod::...(prefix)
    let (trait_name, ty_name, fn_name): (Option<String>, Option<String>, String) = if path.starts_with('<') {
        let close = path.find('>').ok_or("bad path")?;
        let inner = &path[1..close];
        let parts: Vec<&str> = inner.split(" for ").collect();
        if parts.len() != 2 {
            return Err("bad trait path".into());
        }
        (
            Some(parts[0].trim().to_string()),
            Some(parts[1].trim().to_string()),
            path[close + 1..].trim_start_matches("::").to_string(),
        )
    } else if let Some((t, f)) = path.rsplit_once("::") {
        (None, Some(t.to_string()), f.to_string())
    } else {
        (None, None, path.to_string())
    };
    let mut hits: Vec<FoundFn> = Vec::new();
    for it in items {
        match it {
            Item::Fn(f) if ty_name.is_none() && f.sig.ident == fn_name => {
                if attrs_enabled(&f.attrs, feats)? {
                    hits.push(FoundFn { impl_header: None, attrs: f.attrs.clone(), sig: f.sig.clone(), block: (*f.block).clone() });
                }
            }
            Item::Impl(im) if ty_name.is_some() => {
                if !attrs_enabled(&im.attrs, feats)? {
                    continue;
                }
                if type_name(&im.self_ty) != *ty_name.as_ref().unwrap() {
                    continue;
                }
                let tr = im.trait_.as_ref().map(|(_, p, _)| p.segments.last().map(|s| s.ident.to_string()).unwrap_or_default());
                if trait_name != tr {
                    continue;
                }
                for ii in &im.items {
                    if let ImplItem::Fn(f) = ii {
                        if f.sig.ident == fn_name && attrs_enabled(&f.attrs, feats)? {
                            let g = &im.generics;
                            let (ig, _, wc) = g.split_for_impl();
                            let st = &im.self_ty;
                            let hdr = match &im.trait_ {
                                Some((bang, p, _)) => {
                                    let b = bang.map(|_| quote!(!));
                                    quote!(impl #ig #b #p for #st #wc)
                                }
                                None => quote!(impl #ig #st #wc),
                            };
                            hits.push(FoundFn {
                                impl_header: Some(hdr.to_string()),
                                attrs: f.attrs.clone(),
                                sig: f.sig.clone(),
                                block: f.block.clone(),
                            });
                        }
                    }
                }
            }
            _ => {}
        }
    }
    match hits.len() {
        0 => Err(format!("lost anchor: fn `{path}` not found")),
        1 => Ok(hits.pop().unwrap()),
        n => Err(format!("ambiguous: fn `{path}` found {n} times")),
    }
}

fn widen_fields(fields: &mut Fields, feats: &[String]) -> std::result::Result<(), String> {
    let pubv: Visibility = parse_quote!(pub);
    match fields {
        Fields::Named(n) => {
            let mut keep = punctuated::Punctuated::new();
            for mut f in std::mem::take(&mut n.named).into_iter() {
                if attrs_enabled(&f.attrs, feats)? {
                    f.attrs.clear();
                    f.vis = pubv.clone();
                    // A5: a field whose type mentions a trait object (`Arc<dyn Fn(..) + Send + Sync>`, `Box<dyn T>`): Verus rejects the
                    // type; the field becomes the opaque `VxDyn` (prelude/dyn_opaque.vrs).  Code that only carries the struct
                    // around is unaffected; code that touches the field no longer type-checks (UNDECIDED) and must be outlined.
                    if f.ty.to_token_stream().to_string().contains("dyn ") {
                        f.ty = parse_quote!(VxDyn);
                    }
                    keep.push(f);
                }
            }
            n.named = keep;
        }
        Fields::Unnamed(u) => {
            for f in u.unnamed.iter_mut() {
                f.attrs.clear();
                f.vis = pubv.clone();
            }
        }
        Fields::Unit => {}
    }
    Ok(())
}

fn derives_of(attrs: &[Attribute]) -> Vec<String> {
    let mut v = Vec::new();
    for a in attrs {
        if a.path().is_ident("derive") {
            if let Ok(l) = a.parse_args_with(punctuated::Punctuated::<Path, Token![,]>::parse_terminated) {
                for p in l {
                    v.push(p.segments.last().map(|s| s.ident.to_string()).unwrap_or_default());
                }
            }
        }
    }
    v
}

fn do_type(items: &[Item], name: &str, feats: &[String]) -> std::result::Result<ItemResp, String> {
    for it in items {
        match it {
            Item::Struct(s) if s.ident == name && attrs_enabled(&s.attrs, feats)? => {
                let mut s2 = s.clone();
                let derives = derives_of(&s.attrs);
                s2.attrs.clear();
                s2.vis = parse_quote!(pub);
                widen_fields(&mut s2.fields, feats)?;
                let mut lt = LockTypes { n: 0 };
                lt.visit_fields_mut(&mut s2.fields);
                let mut ps = PathShort { n: 0 };
                ps.visit_fields_mut(&mut s2.fields);
                let mut rewrites = BTreeMap::new();
                if lt.n > 0 {
                    rewrites.insert("R7.lock_type".to_string(), lt.n);
                }
                return Ok(ItemResp { rewrites, ok: true, kind: "type".into(), path: name.into(), text: s2.to_token_stream().to_string(), derives, orig_norm: tnorm(s), ..Default::default() });
            }
            Item::Enum(e) if e.ident == name && attrs_enabled(&e.attrs, feats)? => {
                let mut e2 = e.clone();
                let derives = derives_of(&e.attrs);
                e2.attrs.clear();
                e2.vis = parse_quote!(pub);
                let mut keep = punctuated::Punctuated::new();
                for mut v in std::mem::take(&mut e2.variants).into_iter() {
                    if attrs_enabled(&v.attrs, feats)? {
                        v.attrs.clear();
                        match &mut v.fields {
                            Fields::Named(n) => {
                                for f in n.named.iter_mut() {
                                    f.attrs.clear();
                                }
                            }
                            Fields::Unnamed(u) => {
                                for f in u.unnamed.iter_mut() {
                                    f.attrs.clear();
                                }
                            }
                            Fields::Unit => {}
                        }
                        keep.push(v);
                    }
                }
                e2.variants = keep;
                let mut ps = PathShort { n: 0 };
                ps.visit_item_enum_mut(&mut e2);
                return Ok(ItemResp { ok: true, kind: "type".into(), path: name.into(), text: e2.to_token_stream().to_string(), derives, orig_norm: tnorm(e), ..Default::default() });
            }
            Item::Trait(t) if t.ident == name && attrs_enabled(&t.attrs, feats)? => {
                // a trait is extracted as its method SIGNATURES (attributes, doc comments and default bodies dropped; the marker
                // supertraits Send / Sync / 'static, which Verus does not model, are dropped): impls extracted from the
                // repository are compiled against it
                let mut t2 = t.clone();
                t2.attrs.clear();
                t2.vis = parse_quote!(pub);
                let mut sup = punctuated::Punctuated::new();
                for b in std::mem::take(&mut t2.supertraits).into_iter() {
                    let txt = b.to_token_stream().to_string();
                    if txt == "Send" || txt == "Sync" || txt.starts_with('\'') {
                        continue;
                    }
                    sup.push(b);
                }
                if sup.is_empty() {
                    t2.colon_token = None;
                }
                t2.supertraits = sup;
                let mut n_default = 0u32;
                let mut keep = Vec::new();
                for ti in std::mem::take(&mut t2.items) {
                    match ti {
                        TraitItem::Fn(mut f) => {
                            if !attrs_enabled(&f.attrs, feats)? {
                                continue;
                            }
                            f.attrs.clear();
                            if f.default.is_some() {
                                f.default = None;
                                f.semi_token = Some(Default::default());
                                n_default += 1;
                            }
                            keep.push(TraitItem::Fn(f));
                        }
                        TraitItem::Type(mut ty) => {
                            ty.attrs.clear();
                            keep.push(TraitItem::Type(ty));
                        }
                        other => keep.push(other),
                    }
                }
                t2.items = keep;
                let mut ps = PathShort { n: 0 };
                ps.visit_item_trait_mut(&mut t2);
                let mut rewrites = BTreeMap::new();
                if n_default > 0 {
                    rewrites.insert("A4.trait_default_body_dropped".to_string(), n_default);
                }
                return Ok(ItemResp { rewrites, ok: true, kind: "type".into(), path: name.into(), text: t2.to_token_stream().to_string(), orig_norm: tnorm(t), ..Default::default() });
            }
            Item::Type(t) if t.ident == name => {
                let mut t2 = t.clone();
                t2.attrs.clear();
                t2.vis = parse_quote!(pub);
                return Ok(ItemResp { ok: true, kind: "type".into(), path: name.into(), text: t2.to_token_stream().to_string(), orig_norm: tnorm(t), ..Default::default() });
            }
            Item::Const(c) if c.ident == name => {
                let mut c2 = c.clone();
                c2.attrs.clear();
                c2.vis = parse_quote!(pub);
                return Ok(ItemResp { ok: true, kind: "type".into(), path: name.into(), text: c2.to_token_stream().to_string(), orig_norm: tnorm(c), ..Default::default() });
            }
            _ => {}
        }
    }
    Err(format!("lost anchor: type `{name}` not found"))
}

fn do_fn(items: &[Item], req: &ItemReq, feats: &[String]) -> std::result::Result<ItemResp, String> {
    let found = find_fn(items, &req.path, feats)?;
    let _ = &found.attrs;
    let orig_norm = format!("{}{}", tnorm(&found.sig), tnorm(&found.block));
    let mut sig = found.sig.clone();
    let mut block = found.block.clone();
    let mut counts: BTreeMap<String, u32> = BTreeMap::new();

    // pass A: anchors and pinned replacements on the ORIGINAL statements
    let mut am = Marker { do_loops: false, next_loop: 0, kinds: vec![], anchors: req.anchors.clone(), found: BTreeMap::new(), depth: 0, placed_depth: BTreeMap::new(), ctrl: vec![] };
    am.visit_block_mut(&mut block);
    let mut rp = Replacer {
        stmt: req.replace_stmt.iter().cloned().map(|r| (r, 0)).collect(),
        expr: req.replace_expr.iter().cloned().map(|r| (r, 0)).collect(),
        err: None,
    };
    rp.visit_block_mut(&mut block);
    if let Some(e) = rp.err.take() {
        return Err(e);
    }
    // R18 runs BEFORE R23: a helper called only from an abstracted arm must not count as inlined
    if !req.keeparms.is_empty() {
        let mut ka = KeepArms { keep: req.keeparms.clone(), havoc: req.havoc.clone(), n: 0 };
        ka.visit_block_mut(&mut block);
        if ka.n == 0 {
            return Err("keeparms: no match arm was abstracted (source changed?)".into());
        }
        counts.insert("R18.arms_abstracted".to_string(), ka.n);
    }
    // R23: private helpers of the same impl / file that the unit does not provide are inlined, so that a helper extracted by a
    // refactoring leaves the caller's statements where contracts, anchors and loop ordinals expect them
    let mut inlined = 0;
    if !req.no_inline && !req.sig_only && !req.known_fns.is_empty() {
        let self_ty: Option<String> = if req.path.starts_with('<') {
            req.path.find(" for ").and_then(|i| req.path[i + 5..].split('>').next().map(|x| x.trim().to_string()))
        } else {
            req.path.rsplit_once("::").map(|(t, _)| t.to_string())
        };
        let helpers = collect_helpers(items, self_ty.as_deref());
        let own = req.path.rsplit("::").next().unwrap_or("").to_string();
        let mut known = req.known_fns.clone();
        known.push(own);
        let mut inl = Inliner { helpers: &helpers, known: &known, self_ty, n: 0, n_inexact: 0, depth: 0, uniq: 0 };
        inl.visit_block_mut(&mut block);
        inlined = inl.n;
        if inl.n > 0 {
            counts.insert("R23.inline_helper".to_string(), inl.n);
        }
        if inl.n_inexact > 0 {
            // helpers with a loop / closure / `&mut` access: their inlined body may need proof aids the unit does not have
            counts.insert("R23.inline_helper_needs_proof_aid".to_string(), inl.n_inexact);
        }
    }
    if inlined > 0 {
        // pass B: anchors and pins that were not found before may sit in an inlined helper body now
        let missing_a: Vec<Anchor> = req.anchors.iter().filter(|a| am.found.get(&a.id).copied().unwrap_or(0) == 0).cloned().collect();
        if !missing_a.is_empty() {
            let mut am2 = Marker { do_loops: false, next_loop: 0, kinds: vec![], anchors: missing_a, found: BTreeMap::new(), depth: 100, placed_depth: BTreeMap::new(), ctrl: vec![] };
            am2.visit_block_mut(&mut block);
            for (k, v) in am2.found {
                am.found.insert(k, v);
            }
            for (k, v) in am2.placed_depth {
                am.placed_depth.insert(k, v);
            }
        }
        let miss_s: Vec<(Replace, u32)> = rp.stmt.iter().filter(|x| x.1 == 0).cloned().collect();
        let miss_e: Vec<(Replace, u32)> = rp.expr.iter().filter(|x| x.1 == 0).cloned().collect();
        if !miss_s.is_empty() || !miss_e.is_empty() {
            let mut rp2 = Replacer { stmt: miss_s, expr: miss_e, err: None };
            rp2.visit_block_mut(&mut block);
            if let Some(e) = rp2.err.take() {
                return Err(e);
            }
            for (r2, n2) in rp2.stmt.iter() {
                for (r, n) in rp.stmt.iter_mut() {
                    if r.text == r2.text && r.with == r2.with {
                        *n += *n2;
                    }
                }
            }
            for (r2, n2) in rp2.expr.iter() {
                for (r, n) in rp.expr.iter_mut() {
                    if r.text == r2.text && r.with == r2.with {
                        *n += *n2;
                    }
                }
            }
        }
    }
    let mut group_hits: BTreeMap<u32, u32> = BTreeMap::new();
    for (r, n) in rp.stmt.iter().chain(rp.expr.iter()) {
        if let Some(g) = r.group {
            *group_hits.entry(g).or_insert(0) += *n;
        }
    }
    for (g, n) in &group_hits {
        if *n != 1 {
            return Err(format!("pinned text (alternatives group {g}) matched {n} times (source changed?)"));
        }
    }
    for (r, n) in rp.stmt.iter().chain(rp.expr.iter()) {
        if r.group.is_some() {
            continue;
        }
        if *n == 0 {
            return Err(format!("pinned text not found (source changed?): `{}`", r.text));
        }
        if *n > 1 && !r.all {
            return Err(format!("pinned text matched {n} times: `{}`", r.text));
        }
    }
    if !rp.stmt.is_empty() {
        counts.insert("RS.replace_stmt".into(), rp.stmt.iter().map(|x| x.1).sum());
    }
    if !rp.expr.is_empty() {
        counts.insert("RE.replace_expr".into(), rp.expr.iter().map(|x| x.1).sum());
    }
    let mut rw = Rw { setiter: req.setiter.clone(), wrote_lock: false, refpat: 0, retain: req.retain.clone().unwrap_or_else(|| "vec".into()), feats, counts, err: None, fresh_by_kind: BTreeMap::new(), no: req.no_rewrite.clone() };
    // signature: strip attrs on params; a stub has no body, so the `mut` binding mode of by-value parameters is dropped
    for a in sig.inputs.iter_mut() {
        match a {
            FnArg::Receiver(r) => {
                r.attrs.clear();
                if req.sig_only && r.reference.is_none() {
                    r.mutability = None;
                }
            }
            FnArg::Typed(t) => {
                t.attrs.clear();
                if req.sig_only {
                    if let Pat::Ident(pi) = &mut *t.pat {
                        pi.mutability = None;
                    }
                }
            }
        }
    }
    // `.collect()` in tail / return position of a function that returns Vec<..>: the target type is known
    let ret_is_vec = matches!(&sig.output, ReturnType::Type(_, t) if matches!(&**t, Type::Path(tp) if tp.path.segments.last().map(|s| s.ident == "Vec").unwrap_or(false)));
    if ret_is_vec {
        let mut tc = TailCollect { n: 0, sum_f64: false };
        if let Some(Stmt::Expr(e, None)) = block.stmts.last_mut() {
            tc.fix(e);
        }
        tc.visit_block_mut(&mut block);
    }
    let ret_is_f64 = matches!(&sig.output, ReturnType::Type(_, t) if t.to_token_stream().to_string() == "f64");
    if ret_is_f64 {
        let mut tc = TailCollect { n: 0, sum_f64: true };
        if let Some(Stmt::Expr(e, None)) = block.stmts.last_mut() {
            tc.fix(e);
        }
        tc.visit_block_mut(&mut block);
    }
    rw.visit_block_mut(&mut block);
    if let Some(e) = rw.err {
        return Err(e);
    }

    let mut ps = PathShort { n: 0 };
    ps.visit_block_mut(&mut block);
    ps.visit_signature_mut(&mut sig);
    if ps.n > 0 {
        rw.counts.insert("A3.crate_paths".to_string(), ps.n);
    }
    let mut mk = Marker { do_loops: true, next_loop: 0, kinds: vec![], anchors: vec![], found: BTreeMap::new(), depth: 0, placed_depth: BTreeMap::new(), ctrl: vec![] };
    mk.visit_block_mut(&mut block);
    let mut missing = Vec::new();
    for a in &req.anchors {
        let c = am.found.get(&a.id).copied().unwrap_or(0);
        if c <= a.nth.unwrap_or(0) || (a.nth.is_none() && c != 1) {
            missing.push(a.id);
        }
    }
    // body / fn-end markers
    let unit_ret = matches!(sig.output, ReturnType::Default);
    let blocklike_tail = matches!(
        block.stmts.last(),
        Some(Stmt::Expr(Expr::If(_) | Expr::Match(_) | Expr::ForLoop(_) | Expr::While(_) | Expr::Loop(_) | Expr::Block(_), None))
    );
    // a unit function ending in a block-like expression: that expression is a statement, the end of the function is behind it
    let has_tail = matches!(block.stmts.last(), Some(Stmt::Expr(_, None))) && !(unit_ret && blocklike_tail);
    let endm = mac_stmt("__vx_fnend", None);
    if has_tail {
        let n = block.stmts.len();
        block.stmts.insert(n - 1, endm);
    } else {
        block.stmts.push(endm);
    }
    block.stmts.insert(0, mac_stmt("__vx_body", None));

    // R26: `mut self` (by-value, mutable binding: builder methods) -> `self` + `let mut __vx_self = self;`, every `self` in the body renamed
    // (Verus rejects `mut self`)
    let mut_self_by_value = matches!(sig.inputs.first(), Some(FnArg::Receiver(r)) if r.reference.is_none() && r.mutability.is_some());
    if mut_self_by_value {
        if let Some(FnArg::Receiver(r)) = sig.inputs.first_mut() {
            r.mutability = None;
        }
        struct SelfRename;
        impl VisitMut for SelfRename {
            fn visit_ident_mut(&mut self, i: &mut Ident) {
                if i == "self" {
                    *i = Ident::new("__vx_self", i.span());
                }
            }
            fn visit_macro_mut(&mut self, _m: &mut Macro) {}
        }
        SelfRename.visit_block_mut(&mut block);
        block.stmts.insert(1, parse_quote!(let mut __vx_self = self;));
        *rw.counts.entry("R26.mut_self".to_string()).or_insert(0) += 1;
    }

    // A5 (signature side): a parameter whose type mentions a trait object becomes the same opaque `VxDyn` that struct fields of such
    // types become, so that a constructor storing the parameter in the field still type-checks
    for a in sig.inputs.iter_mut() {
        if let FnArg::Typed(pt) = a {
            if pt.ty.to_token_stream().to_string().contains("dyn ") {
                pt.ty = Box::new(parse_quote!(VxDyn));
                *rw.counts.entry("A5.dyn_param_opaque".to_string()).or_insert(0) += 1;
            }
        }
    }
    for a in sig.inputs.iter_mut() {
        if let FnArg::Typed(pt) = a {
            if let Pat::Ident(pi) = &*pt.pat {
                if req.mutparam.iter().any(|n| pi.ident == n) {
                    if let Type::Reference(r) = &mut *pt.ty {
                        if r.mutability.is_none() {
                            r.mutability = Some(Default::default());
                            *rw.counts.entry("R7.mut_param".to_string()).or_insert(0) += 1;
                        }
                    }
                }
            }
        }
    }
    if rw.wrote_lock || req.mutself {
        if let Some(FnArg::Receiver(r)) = sig.inputs.first_mut() {
            if r.reference.is_some() && r.mutability.is_none() {
                let nr: FnArg = parse_quote!(&mut self);
                if let FnArg::Receiver(nr) = nr {
                    *r = nr;
                    *rw.counts.entry("R7.mut_self".to_string()).or_insert(0) += 1;
                }
            }
        }
    }
    let ret_ty = match &sig.output {
        ReturnType::Default => None,
        ReturnType::Type(_, t) => Some(t.to_token_stream().to_string()),
    };
    let where_clause = sig.generics.where_clause.as_ref().map(|w| w.to_token_stream().to_string());
    sig.output = ReturnType::Default;
    sig.generics.where_clause = None;
    let sig_head = format!("pub {}", sig.to_token_stream());
    rw.counts.insert("A2.pub".into(), 1);
    Ok(ItemResp {
        ok: true,
        error: None,
        kind: "fn".into(),
        path: req.path.clone(),
        impl_header: found.impl_header,
        sig_head,
        ret_ty,
        where_clause,
        text: if req.sig_only { String::new() } else { block.to_token_stream().to_string() },
        loops: mk.next_loop,
        loop_kinds: mk.kinds,
        derives: vec![],
        rewrites: rw.counts,
        missing_anchors: missing,
        anchor_depths: am.placed_depth.clone(),
        ctrl: mk.ctrl,
        orig_norm,
    })
}

fn collect_items(items: &[Item], prefix: &[&str]) -> Vec<Item> {
    // descend into inline modules named in prefix
    if prefix.is_empty() {
        return items.to_vec();
    }
    for it in items {
        if let Item::Mod(m) = it {
            if m.ident == prefix[0] {
                if let Some((_, inner)) = &m.content {
                    return collect_items(inner, &prefix[1..]);
                }
            }
        }
    }
    vec![]
}

fn main() {
    let mut input = String::new();
    std::io::Read::read_to_string(&mut std::io::stdin(), &mut input).expect("stdin");
    let req: Request = serde_json::from_str(&input).expect("request json");
    let mut cache: BTreeMap<String, std::result::Result<File, String>> = BTreeMap::new();
    let mut out: Vec<ItemResp> = Vec::new();
    for it in &req.items {
        let parsed = cache.entry(it.file.clone()).or_insert_with(|| {
            std::fs::read_to_string(&it.file)
                .map_err(|e| format!("lost anchor: cannot read {}: {e}", it.file))
                .and_then(|s| syn::parse_file(&s).map_err(|e| format!("cannot parse {}: {e}", it.file)))
        });
        let r = match parsed {
            Err(e) => Err(e.clone()),
            Ok(f) => {
                let items = collect_items(&f.items, &[]);
                match it.kind.as_str() {
                    "fn" => do_fn(&items, it, &req.features),
                    "type" => do_type(&items, &it.path, &req.features),
                    k => Err(format!("unknown kind {k}")),
                }
            }
        };
        out.push(match r {
            Ok(x) => x,
            Err(e) => ItemResp { ok: false, error: Some(e), kind: it.kind.clone(), path: it.path.clone(), ..Default::default() },
        });
    }
    println!("{}", serde_json::to_string_pretty(&out).unwrap());
}
