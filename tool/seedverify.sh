#!/bin/bash
# usage: seedverify.sh <PROP>   — confirms every seeded change of /tmp/seed-<PROP>-out in its worktree /tmp/seed-<PROP>:
# builds, existing tests pass, demo fails with the change and passes without.  Writes /tmp/seed-<PROP>-out/<i>/confirm.txt
P=$1; PFX=${SEEDPFX:-seed}; WT=/tmp/$PFX-$P; OUT=/tmp/$PFX-$P-out
cd $WT || exit 1
export CARGO_NET_OFFLINE=true
for d in $OUT/[0-9]*; do
  i=$(basename $d)
  [ -f $d/patch.diff ] || continue
  git checkout -q -- src
  cp $d/demo.rs tests/seed_demo_$i.rs 2>/dev/null
  {
    echo "== $P/$i"
    if ! git apply --check $d/patch.diff 2>/dev/null; then echo "APPLY: FAIL"; continue; fi
    git apply $d/patch.diff
    if cargo build --offline --features streaming,backward-chaining -q 2>/dev/null; then echo "BUILD: ok"; else echo "BUILD: FAIL"; fi
    r=$(cargo test --workspace --no-fail-fast --offline 2>&1 | grep -E "^test result" | awk '{p+=$4; f+=$6} END {print p" passed "f" failed"}')
    echo "TESTS(with change): $r"
    if cargo test --offline --features streaming,backward-chaining --test seed_demo_$i -q >/dev/null 2>&1; then echo "DEMO(with change): passes (BAD)"; else echo "DEMO(with change): fails (good)"; fi
    git checkout -q -- src
    if cargo test --offline --features streaming,backward-chaining --test seed_demo_$i -q >/dev/null 2>&1; then echo "DEMO(without): passes (good)"; else echo "DEMO(without): fails (BAD)"; fi
  } > $d/confirm.txt 2>&1
done
git checkout -q -- src
cat $OUT/*/confirm.txt
