#!/usr/bin/env python3
"""Assembler + driver for the contract-based verification units (DESIGN.md §2).

A *unit* is a template file units/<u>/unit.vrs: Verus text (spec functions, lemmas, std
assumptions) interleaved with `//@` directives that pull the REAL items out of /repo through `vx`
and attach contracts to them.  Nothing of /repo's code is typed into a template.
"""
import hashlib
import json
import os
import re
import subprocess
import sys
import time

VERIF = os.path.dirname(os.path.dirname(os.path.abspath(__file__)))
REPO = os.environ.get("VERIF_REPO", "/repo")
VX = os.path.join(VERIF, "vx", "target", "release", "vx")
BUILD = os.path.join(VERIF, "build")
VERUS = os.environ.get("VERUS", "verus")


class Undecided(Exception):
    pass


# ------------------------------------------------------------------------------------------------
# template parsing
# ------------------------------------------------------------------------------------------------
class FnDir:
    def __init__(self, file, path, opts, line):
        self.file = file
        self.path = path
        self.opts = opts          # dict
        self.line = line          # template line of the directive
        self.spec = []            # [(tpl_line, text)]
        self.loops = {}           # k -> {'iter': name|None, 'lines': [(tpl_line, text)]}
        self.ats = []             # [{'pos':..., 'k':..., 'text':..., 'nth':..., 'lines': [...]}]
        self.replace_stmt = []
        self.replace_expr = []
        self.stub = False


def _bt(s):
    """split a directive argument string into backtick-quoted pieces and bare words"""
    out = []
    i = 0
    while i < len(s):
        if s[i] == '`':
            j = s.index('`', i + 1)
            out.append(('q', s[i + 1:j]))
            i = j + 1
        elif s[i].isspace():
            i += 1
        else:
            j = i
            while j < len(s) and not s[j].isspace() and s[j] != '`':
                j += 1
            out.append(('w', s[i:j]))
            i = j
    return out


def parse_template(path):
    """returns (meta, chunks); chunk = ('raw', [(line, text)]) | ('type', dict) | ('fn', FnDir)"""
    meta = {'unit': os.path.basename(os.path.dirname(path)), 'props': [], 'features': []}
    chunks = []
    raw = []
    cur = None      # FnDir being filled
    sect = None     # list to which raw lines go inside a fn directive
    with open(path) as f:
        lines = f.read().split('\n')
    for ln, text in enumerate(lines, 1):
        st = text.strip()
        if not st.startswith('//@'):
            if cur is not None:
                if sect is not None:
                    sect.append((ln, text))
                elif st:
                    raise Undecided(f"{path}:{ln}: text outside a section inside //@fn")
            else:
                raw.append((ln, text))
            continue
        body = st[3:].strip()
        word = body.split(None, 1)[0] if body else ''
        rest = body[len(word):].strip()
        if word in ('unit',):
            meta['unit'] = rest
        elif word == 'props':
            meta['props'] = rest.split()
        elif word == 'features':
            meta['features'] = rest.split()
        elif word == 'include':
            inc = os.path.join(VERIF, rest)
            with open(inc) as g:
                for k, t in enumerate(g.read().split('\n'), 1):
                    raw.append((('inc', rest, k), t))
        elif word == 'type':
            if raw:
                chunks.append(('raw', raw)); raw = []
            parts = rest.split(None, 2)
            d = {'file': parts[0], 'name': parts[1], 'line': ln, 'derive': None, 'attrs': []}
            if len(parts) > 2:
                m = re.search(r'(?<![-\w])derive\(([^)]*)\)', parts[2])
                if m:
                    d['derive'] = [x.strip() for x in m.group(1).split(',') if x.strip()]
                for m in re.finditer(r'attr\(([^)]*)\)', parts[2]):
                    d['attrs'].append(m.group(1))
                m = re.search(r'pin=([0-9a-f]+)', parts[2])
                if m:
                    d['pin'] = m.group(1)
                m = re.search(r'assume-derive\(([^)]*)\)', parts[2])
                if m:
                    d['assume_derive'] = [x.strip() for x in m.group(1).split(',') if x.strip()]
            chunks.append(('type', d))
        elif word in ('fn', 'stub'):
            if cur is not None:
                raise Undecided(f"{path}:{ln}: nested //@fn")
            if raw:
                chunks.append(('raw', raw)); raw = []
            parts = rest.split()
            opts = {}
            # path may contain spaces for `<Trait for Type>::m`
            if parts[1].startswith('<'):
                j = 1
                p = parts[1]
                while '>' not in p:
                    j += 1
                    p += ' ' + parts[j]
                fpath = p
                extra = parts[j + 1:]
            else:
                fpath = parts[1]
                extra = parts[2:]
            for o in extra:
                if '=' in o:
                    k, v = o.split('=', 1)
                    opts[k] = v
                else:
                    opts[o] = True
            cur = FnDir(parts[0], fpath, opts, ln)
            cur.stub = (word == 'stub')
            sect = None
        elif word == 'spec':
            sect = cur.spec
        elif word == 'loop':
            parts = rest.split()
            k = int(parts[0])
            it = None
            for o in parts[1:]:
                if o.startswith('iter='):
                    it = o[5:]
            cur.loops[k] = {'iter': it, 'lines': []}
            sect = cur.loops[k]['lines']
        elif word == 'at':
            toks = _bt(rest)
            a = {'pos': toks[0][1], 'k': None, 'text': None, 'nth': None, 'lines': [], 'line': ln}
            a['alts'] = []
            for kind, v in toks[1:]:
                if kind == 'q':
                    if a['text'] is None:
                        a['text'] = v
                    else:
                        a['alts'].append(v)
                elif v.startswith('#'):
                    a['nth'] = int(v[1:])
                else:
                    a['k'] = int(v)
            cur.ats.append(a)
            sect = a['lines']
        elif word in ('replace-stmt', 'replace-expr', 'replace-stmt-alt', 'replace-expr-alt'):
            toks = _bt(rest)
            qs = [v for kind, v in toks if kind == 'q']
            allf = any(v == 'all' for kind, v in toks if kind == 'w')
            rec = {'text': qs[0], 'with': qs[1], 'all': allf}
            lst = cur.replace_stmt if word.startswith('replace-stmt') else cur.replace_expr
            if word.endswith('-alt'):
                # alternative to the previous replacement: exactly one of the group must match
                prev = lst[-1]
                if prev.get('group') is None:
                    cur._groups = getattr(cur, '_groups', 0) + 1
                    prev['group'] = cur._groups
                rec['group'] = prev['group']
            lst.append(rec)
            sect = None
        elif word == 'end':
            chunks.append(('fn', cur))
            cur = None
            sect = None
        elif word == '' or word.startswith('#'):
            pass
        else:
            raise Undecided(f"{path}:{ln}: unknown directive {word}")
    if cur is not None:
        raise Undecided(f"{path}: unterminated //@fn {cur.path}")
    if raw:
        chunks.append(('raw', raw))
    return meta, chunks


# ------------------------------------------------------------------------------------------------
# clause splitting (for obligation naming / counting)
# ------------------------------------------------------------------------------------------------
KW = ('requires', 'ensures', 'invariant', 'invariant_except_break', 'ensures_on_break', 'decreases', 'recommends', 'returns', 'no_unwind', 'opens_invariants')


def split_clauses(lines):
    """lines: [(tpl_line, text)] of a spec / loop section.
    returns [{'kind', 'label', 'first', 'last', 'text'}] one per top-level clause"""
    out = []
    kind = None
    depth = 0
    cur = None
    in_q = False  # inside forall|...| binder

    def close():
        nonlocal cur
        if cur and cur['text'].strip():
            t = cur['text'].strip()
            m = re.match(r'/\*\s*([A-Za-z0-9_.\-]+)\s*\*/', t)
            cur['label'] = m.group(1) if m else None
            cur['text'] = t
            out.append(cur)
        cur = None

    for ln, text in lines:
        code = text.split('//')[0] if '//' in text and not text.strip().startswith('/*') else text
        s = code.strip()
        if depth == 0 and not in_q:
            w = re.match(r'([a-z_]+)\b', s)
            if w and w.group(1) in KW:
                close()
                kind = w.group(1)
                code = code[code.index(kind) + len(kind):]
        if kind is None:
            continue
        i = 0
        while i < len(code):
            c = code[i]
            if cur is None and not c.isspace():
                cur = {'kind': kind, 'first': ln, 'last': ln, 'text': ''}
            if in_q:
                if c == '|':
                    in_q = False
            elif c in '([{':
                depth += 1
            elif c in ')]}':
                depth -= 1
            elif c == '|' and re.search(r'(forall|exists|choose)\s*$', code[:i]):
                in_q = True
            elif c == ',' and depth == 0:
                if cur:
                    cur['last'] = ln
                close()
                i += 1
                continue
            if cur is not None:
                cur['text'] += c
                cur['last'] = ln
            i += 1
        if cur is not None:
            cur['text'] += ' '
    close()
    return out


# ------------------------------------------------------------------------------------------------
# assembling the generated Verus file
# ------------------------------------------------------------------------------------------------
def run_vx(items, features):
    if not os.path.exists(VX):
        raise Undecided("vx not built (run MANIFEST.setup_cmd)")
    req = {'features': features, 'items': items}
    p = subprocess.run([VX], input=json.dumps(req), capture_output=True, text=True)
    if p.returncode != 0:
        raise Undecided("vx crashed: " + p.stderr[-2000:])
    return json.loads(p.stdout)


def rustfmt(src):
    p = subprocess.run(['rustfmt', '--edition', '2021', '--config', 'max_width=140'], input=src, capture_output=True, text=True)
    if p.returncode != 0:
        raise Undecided("rustfmt failed on extracted text: " + p.stderr[:1500])
    return p.stdout


def find_matching(s, i, open_c='(', close_c=')'):
    d = 0
    while i < len(s):
        if s[i] == open_c:
            d += 1
        elif s[i] == close_c:
            d -= 1
            if d == 0:
                return i
        i += 1
    raise Undecided("unbalanced marker")


class Gen:
    """generated file as a list of (text, origin)"""

    def __init__(self):
        self.lines = []

    def add(self, text, origin):
        for t in text.split('\n'):
            self.lines.append((t, origin))

    def text(self):
        return '\n'.join(t for t, _ in self.lines) + '\n'


def assemble(unit_dir, mode='verify'):
    """mode: verify | vacuity.  returns dict(gen=Gen, fns=[...], meta=..., info=...)"""
    tpl = os.path.join(unit_dir, 'unit.vrs')
    meta, chunks = parse_template(tpl)
    # one vx call for all items
    items = []
    idx = {}
    for kind, c in chunks:
        if kind == 'type':
            idx[id(c)] = len(items)
            items.append({'kind': 'type', 'file': os.path.join(REPO, c['file']), 'path': c['name']})
        elif kind == 'fn':
            anchors = []
            for n, a in enumerate(c.ats):
                if a['pos'] in ('before', 'after'):
                    anchors.append({'id': n, 'pos': a['pos'], 'text': a['text'], 'nth': a['nth'], 'alts': a.get('alts', [])})
            idx[id(c)] = len(items)
            items.append({'kind': 'fn', 'file': os.path.join(REPO, c.file), 'path': c.path, 'anchors': anchors,
                          'replace_stmt': c.replace_stmt, 'replace_expr': c.replace_expr,
                          'no_rewrite': [k[3:] for k in c.opts if k.startswith('no-')],
                          'sig_only': c.stub, 'no_inline': bool(c.opts.get('no-inline')), 'retain': c.opts.get('retain'), 'mutself': bool(c.opts.get('mutself')), 'keeparms': [x for x in str(c.opts.get('keeparms', '')).split('|') if x and x != 'True'], 'havoc': [x for x in str(c.opts.get('havoc', '')).split(',') if x and x != 'True'], 'mutparam': [x for x in str(c.opts.get('mutparam', '')).split(',') if x and x != 'True'], 'setiter': [x for x in str(c.opts.get('setiter', '')).split(',') if x and x != 'True']})
    known = sorted(set(re.split(r'::', c.path.split('>::')[-1])[-1] for kind, c in chunks if kind == 'fn'))
    for it in items:
        if it['kind'] == 'fn':
            it['known_fns'] = known
    resp = run_vx(items, meta['features'])
    for it, r in zip(items, resp):
        if not r['ok']:
            raise Undecided(f"extract {it['path']} from {it['file']}: {r['error']}")

    g = Gen()
    fns = []        # per extracted fn: dict(path, stub, clauses, first_line, last_line, probes)
    info = {'rewrites': {}, 'types': [], 'stubs': [], 'replacements': [], 'hints_dropped': [], 'probes': [], 'auto_specs': []}
    # std integer helpers without a vstd specification (prelude/int_ops.vrs): added one by one when the EXTRACTED code calls them and
    # the template does not specify them itself
    code_text = ' '.join(re.sub(r'\s+', '', r.get('text') or '') for r in resp)
    tpl_text = open(tpl).read()
    auto = []
    ap = os.path.join(VERIF, 'prelude', 'int_ops.vrs')
    if os.path.exists(ap):
        al = open(ap).read().split('\n')
        for n, l in enumerate(al):
            m = re.match(r'//@auto `([^`]+)` (\S+)', l)
            if m and m.group(1) in code_text and ('[%s]' % m.group(2)) not in tpl_text:
                auto.append((m.group(2), al[n + 1]))
    auto_done = not auto
    for kind, c in chunks:
        if kind == 'raw':
            for ln, t in c:
                g.add(t, ('tpl', ln))
                if not auto_done and re.match(r'\s*verus!\s*\{', t):
                    for name, spec in auto:
                        g.add('// auto-added from prelude/int_ops.vrs (the extracted code calls %s)' % name, ('auto', name))
                        g.add(spec, ('auto', name))
                        info['auto_specs'].append(name)
                    auto_done = True
        elif kind == 'type':
            r = resp[idx[id(c)]]
            real = set(r['derives'])
            if c['derive'] is not None:
                bad = [d for d in c['derive'] if d not in real and d not in ('Structural',)]
                if bad:
                    raise Undecided(f"type {c['name']}: derive {bad} requested but the real type derives {sorted(real)}")
                if c['derive']:
                    g.add('#[derive(%s)]' % ', '.join(c['derive']), ('tpl', c['line']))
            for a in c['attrs']:
                g.add('#[%s]' % a, ('tpl', c['line']))
            h = hashlib.sha256(r['orig_norm'].encode()).hexdigest()[:12]
            if c.get('pin') and c['pin'] != h:
                raise Undecided(f"type {c['name']}: pinned shape changed (now {h}); assumptions tied to it no longer apply")
            g.add(rustfmt(r['text']).rstrip('\n'), ('type', c['name']))
            for tr in c.get('assume_derive', []):
                if tr not in real:
                    raise Undecided(f"type {c['name']}: assumption about derive({tr}) but the real type derives {sorted(real)}")
                if tr == 'Clone':
                    g.add('impl Clone for %s { #[verifier::external_body] fn clone(&self) -> (r: Self) ensures r == *self { unimplemented!() } } // assumed: #[derive(Clone)] copies structurally' % c['name'], ('tpl', c['line']))
                elif tr == 'Default':
                    g.add('impl Default for %s { #[verifier::external_body] fn default() -> (r: Self) { unimplemented!() } } // assumed: #[derive(Default)] returns SOME value (nothing is claimed about it)' % c['name'], ('tpl', c['line']))
                elif tr == 'PartialEq':
                    g.add('impl vstd::std_specs::cmp::PartialEqSpecImpl for %s { open spec fn obeys_eq_spec() -> bool { true } open spec fn eq_spec(&self, other: &Self) -> bool { *self == *other } } // assumed: #[derive(PartialEq)] is structural equality (no float field)' % c['name'], ('tpl', c['line']))
                else:
                    raise Undecided(f"assume-derive({tr}) unsupported")
            for k, v in r.get('rewrites', {}).items():
                info['rewrites'][k] = info['rewrites'].get(k, 0) + v
            info['types'].append({'name': c['name'], 'file': c['file'], 'hash': h, 'real_derives': sorted(real), 'kept_derives': c['derive'] or []})
        elif kind == 'fn':
            r = resp[idx[id(c)]]
            for k, v in r['rewrites'].items():
                info['rewrites'][k] = info['rewrites'].get(k, 0) + v
            for rp in c.replace_stmt + c.replace_expr:
                info['replacements'].append({'fn': c.path, 'pinned': rp['text'], 'with': rp['with']})
            fn = {'path': c.path, 'file': c.file, 'stub': c.stub, 'tpl_line': c.line, 'clauses': [], 'probes': [],
                  'hash': hashlib.sha256(r['orig_norm'].encode()).hexdigest()[:12]}
            if c.opts.get('pin') and c.opts['pin'] != fn['hash']:
                raise Undecided(f"fn {c.path}: pinned text changed (now {fn['hash']}); the assumed contract no longer applies")
            fn['inlined'] = r['rewrites'].get('R23.inline_helper_needs_proof_aid', 0)   # straight-line read-only helpers are inlined exactly
            fn['anchors_lost'] = len(r.get('missing_anchors', []))
            fn['loop_kinds'] = list(r.get('loop_kinds') or [])
            fn['anchor_depths'] = [v for k, v in sorted((int(k), v) for k, v in (r.get('anchor_depths') or {}).items())]
            fn['ctrl'] = list(r.get('ctrl') or [])
            fn['first_line'] = len(g.lines) + 1
            retname = c.opts.get('ret', 'r')
            if r['impl_header']:
                g.add(r['impl_header'] + ' {', ('code', c.path))
            if c.stub:
                g.add('#[verifier::external_body]', ('tpl', c.line))
            for k in c.opts:
                if k.startswith('attr:'):
                    g.add('#[%s]' % k[5:], ('tpl', c.line))
            head = r['sig_head']
            if c.opts.get('private'):
                head = head[4:] if head.startswith('pub ') else head
            if r['impl_header'] and ' for ' in r['impl_header'] and head.startswith('pub '):
                head = head[4:]  # trait impl methods carry no visibility
            if r['ret_ty']:
                head += ' -> (%s: %s)' % (retname, r['ret_ty'])
            if r['where_clause']:
                head += ' ' + r['where_clause']
            g.add(rustfmt_sig(head), ('code', c.path))
            cls = split_clauses(c.spec)
            for cl in cls:
                cl['fn'] = c.path
                cl['where'] = 'spec'
            fn['clauses'] += cls
            for ln, t in c.spec:
                g.add(t, ('tpl', ln))
            if c.stub:
                g.add('{ unimplemented!() }', ('code', c.path))
                info['stubs'].append({'fn': c.path, 'file': c.file, 'contract': ' '.join(t.strip() for _, t in c.spec)})
            else:
                missing = set(r['missing_anchors'])
                body = rustfmt('fn __vx_wrap() ' + r['text'])
                body = body[body.index('{'):]
                # loops present?
                for k in c.loops:
                    if k >= r['loops']:
                        raise Undecided(f"fn {c.path}: loop {k} has a contract but the code has only {r['loops']} loops")
                emit_body(g, body, c, r, fn, mode, missing, info)
            if r['impl_header']:
                g.add('}', ('code', c.path))
            fn['last_line'] = len(g.lines)
            fns.append(fn)
    return {'gen': g, 'fns': fns, 'meta': meta, 'info': info, 'template': tpl}


def rustfmt_sig(head):
    return re.sub(r'\s+', ' ', head)


MARK = re.compile(r'__vx_(body|fnend|loop|loopend|at)!\((\d*)\);')


def emit_body(g, body, c, r, fn, mode, missing, info):
    """substitute markers line by line (rustfmt puts every marker statement on its own line)"""
    ats_by_id = {n: a for n, a in enumerate(c.ats)}
    lines = body.split('\n')
    out = []   # (text, origin)
    code = ('code', c.path)

    def put_lines(sec):
        for ln, t in sec:
            out.append((t, ('tpl', ln)))
            lm = re.search(r'assert\s*\(.*/\*\s*(C\d\d\.[A-Za-z0-9_.\-]+)\s*\*/', t) or re.search(r'/\*\s*(C\d\d\.[A-Za-z0-9_.\-]+)\s*\*/\s*assert\s*\(', t)
            if lm and not any(cl.get('label') == lm.group(1) and cl.get('first') == ln for cl in fn['clauses']):
                fn['clauses'].append({'kind': 'assert', 'label': lm.group(1), 'first': ln, 'last': ln, 'text': t.strip(), 'fn': c.path, 'where': 'site obligation'})

    def ats(pos, k=None):
        for a in c.ats:
            if a['pos'] == pos and a['k'] == k:
                put_lines(a['lines'])

    i = 0
    pending_sep = False
    while i < len(lines):
        line = lines[i]
        m = MARK.search(line)
        # `for` header carrying an iterator marker
        if '__vx_iter!(' in line:
            j = line.index('__vx_iter!(')
            # the marker may span several lines after rustfmt; join until balanced
            acc = line
            while True:
                try:
                    e = find_matching(acc, j + len('__vx_iter!'))
                    break
                except Undecided:
                    i += 1
                    acc += ' ' + lines[i].strip()
            inner = acc[j + len('__vx_iter!('):e]
            k_s, expr = inner.split(',', 1)
            k = int(k_s)
            spec = c.loops.get(k)
            name = spec['iter'] if spec and spec['iter'] else None
            newexpr = (name + ': ' if name else '') + expr.strip()
            acc = acc[:j] + newexpr + acc[e + 1:]
            lines[i] = acc
            line = acc
            # fallthrough: header line itself is code; the `{` handling happens at the loop marker
            m = MARK.search(line)
        if not m:
            out.append((line, code))
            # Verus' parser takes a block that directly follows a loop WITH a contract for the loop body ("block looks like the loop
            # body but is followed by another block"): separate them with an empty proof block
            if pending_sep and line.strip() == '}':
                nxt = next((l.strip() for l in lines[i + 1:] if l.strip()), '')
                if nxt.startswith('{'):
                    out.append(('proof { }', code))
            if line.strip():
                pending_sep = False
            i += 1
            continue
        kind, arg = m.group(1), m.group(2)
        if kind == 'body':
            ats('fn-start')
        elif kind == 'fnend':
            ats('fn-end')
            if mode == 'vacuity':
                out.append(('proof { assert(false); } // VXPROBE fn-end', ('probe', c.path, 'fn-end')))
        elif kind == 'loop':
            k = int(arg)
            # previous emitted line ends with `{` — move the loop spec in front of it
            pt, po = out.pop()
            if not pt.rstrip().endswith('{'):
                raise Undecided(f"fn {c.path}: cannot place loop {k} contract")
            out.append((pt.rstrip()[:-1], po))
            spec = c.loops.get(k)
            if spec:
                cls = split_clauses(spec['lines'])
                for cl in cls:
                    cl['fn'] = c.path
                    cl['where'] = 'loop %d' % k
                fn['clauses'] += cls
                put_lines(spec['lines'])
            out.append(('{', code))
            ats('loop-start', k)
            if mode == 'vacuity':
                out.append(('proof { assert(false); } // VXPROBE loop %d' % k, ('probe', c.path, 'loop %d' % k)))
        elif kind == 'loopend':
            ats('loop-end', int(arg))
            pending_sep = bool(c.loops.get(int(arg)))
        elif kind == 'at':
            n = int(arg)
            a = ats_by_id[n]
            put_lines(a['lines'])
        i += 1
    for n, a in ats_by_id.items():
        if a['pos'] in ('before', 'after') and n in missing:
            info['hints_dropped'].append({'fn': c.path, 'anchor': a['text'], 'tpl_line': a['line']})
    for t, o in out:
        g.lines.append((t, o))


# ------------------------------------------------------------------------------------------------
# running verus
# ------------------------------------------------------------------------------------------------
ASSUME_PAT = re.compile(r'external_body|assume_specification|external_type_specification|\bassume\s*\(|\badmit\s*\(|\baxiom_|uninterp\s+spec|external_fn_specification|#\[verifier::external\]|accept_recursive_types|verifier::truncate|SpecImpl\s+for')


def scan_assumptions(gen):
    """mechanical list of everything in the generated file that is assumed rather than proved"""
    found = []
    lines = gen.lines
    for n, (t, o) in enumerate(lines):
        s = t.strip()
        if s.startswith('//'):
            continue
        m = ASSUME_PAT.search(s)
        if not m:
            continue
        # describe with the next non-attribute line
        desc = s
        if s.startswith('#['):
            k = n + 1
            while k < len(lines) and (lines[k][0].strip().startswith('#[') or not lines[k][0].strip()):
                k += 1
            if k < len(lines):
                desc = s + ' ' + lines[k][0].strip()
        if o[0] == 'code' and re.search(r'\bassume\s*\(|\badmit\s*\(', s):
            found.append('FORBIDDEN assume/admit in extracted body: ' + desc)
        else:
            found.append(re.sub(r'\s+', ' ', desc)[:300])
    return found


def run_verus(path, extra=None, timeout=600):
    cmd = [VERUS, path, '--output-json', '--time', '--error-format=json', '--triggers-mode', 'silent'] + (extra or [])
    t0 = time.time()
    try:
        p = subprocess.run(cmd, capture_output=True, text=True, timeout=timeout, cwd=os.path.dirname(path))
    except subprocess.TimeoutExpired:
        raise Undecided(f"verus timed out after {timeout}s on {path}")
    wall = time.time() - t0
    try:
        js = json.loads(p.stdout)
    except Exception:
        js = None
    diags = []
    for l in p.stderr.split('\n'):
        l = l.strip()
        if l.startswith('{'):
            try:
                diags.append(json.loads(l))
            except Exception:
                pass
    return {'rc': p.returncode, 'json': js, 'diags': diags, 'stderr': p.stderr, 'wall': wall, 'cmd': ' '.join(cmd)}


FAIL_KINDS = [
    ('postcondition not satisfied', 'postcondition'),
    ('precondition not satisfied', 'precondition'),
    ('fails to satisfy `callee.requires(args)`', 'precondition'),
    ('invariant not satisfied', 'invariant'),
    ('assertion failed', 'assertion'),
    ('assertion not satisfied', 'assertion'),
    ('possible arithmetic underflow/overflow', 'overflow'),
    ('possible division by zero', 'div0'),
    ('decreases not satisfied', 'decreases'),
    ('could not prove termination', 'decreases'),
    ('possible bit shift underflow/overflow', 'overflow'),
    ('unreachable', 'unreachable'),
    ('recommendation not met', None),
    ('loop invariant', 'invariant'),
    ('index out of bounds', 'bounds'),
    ('cannot show', 'other'),
    ('failed', 'other'),
]

UNDECIDED_PAT = re.compile(r'rlimit|Resource limit|timed out|not supported|not yet supported|unsupported|The verifier does not|internal error|panicked', re.I)


def classify(diag):
    """-> ('fail', kind) | ('undecided', reason) | ('ignore', None)"""
    if diag.get('level') not in ('error',):
        return ('ignore', None)
    msg = diag.get('message', '')
    if msg.startswith('aborting due to'):
        return ('ignore', None)
    if UNDECIDED_PAT.search(msg):
        return ('undecided', msg)
    for pat, kind in FAIL_KINDS:
        if pat in msg:
            if kind is None:
                return ('ignore', None)
            return ('fail', kind)
    return ('undecided', 'verifier/compiler error: ' + msg)
