#!/bin/bash
# build (cached under /verif/build/witness-<hash of repo path>) and run the witness program against $VERIF_REPO (default /repo)
set -e
REPO=${VERIF_REPO:-/repo}
V=$(cd "$(dirname "$0")/.." && pwd)
H=$(echo -n "$REPO" | md5sum | cut -c1-8)
W=$V/build/witness-$H
mkdir -p $W
(
  flock 9
  rsync -a --delete $V/witness/src $W/
  sed "s#@REPO@#$REPO#" $V/witness/Cargo.toml.in > $W/Cargo.toml
  cp $REPO/Cargo.lock $W/Cargo.lock 2>/dev/null || true
  cd $W
  CARGO_NET_OFFLINE=true cargo build --offline -q 2>$W/build.log || { tail -30 $W/build.log >&2; exit 3; }
  cp $W/target/debug/witness $W/witness.bin.$$ && mv -f $W/witness.bin.$$ $W/witness.bin
) 9>$W/.lock
case "$REPO" in
  /repo) exec $W/witness.bin "$@" ;;
  *) cp $W/witness.bin $W.bin; rm -rf $W; $W.bin "$@"; rc=$?; rm -f $W.bin; exit $rc ;;
esac
