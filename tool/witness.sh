#!/bin/bash
# build (cached under /verif/build/witness) and run the witness program against $VERIF_REPO (default /repo)
set -e
REPO=${VERIF_REPO:-/repo}
V=$(cd "$(dirname "$0")/.." && pwd)
W=$V/build/witness
mkdir -p $W
rsync -a --delete $V/witness/src $W/
sed "s#@REPO@#$REPO#" $V/witness/Cargo.toml.in > $W/Cargo.toml
cp $REPO/Cargo.lock $W/Cargo.lock 2>/dev/null || true
cd $W
CARGO_NET_OFFLINE=true cargo build --offline -q 2>$W/build.log || { tail -30 $W/build.log >&2; exit 3; }
exec ./target/debug/witness "$@"
