#!/usr/bin/env python3
"""DESIGN.md = DESIGN.head.md + sections generated from props/*.json, evidence/*.json, known_findings.json, seeded/*/meta.json + DESIGN.tail.md"""
import glob, json, os, re
V = os.path.dirname(os.path.dirname(os.path.abspath(__file__)))
props = [json.loads(l) for l in open(os.path.join(V, 'properties.jsonl'))]
cfg = {os.path.basename(p)[:-5]: json.load(open(p)) for p in glob.glob(os.path.join(V, 'props', 'C*.json'))}
na = {x['property_id']: x['reason'] for x in json.load(open(os.path.join(V, 'not_applicable.json')))}
kf = json.load(open(os.path.join(V, 'known_findings.json')))
out = [open(os.path.join(V, 'DESIGN.head.md')).read().rstrip(), '', '-' * 117, '', '## 4. Per property (generated from props/*.json and the last evidence files)', '']
out.append('| id | status | units | obligations discharged (last run) | functions under contract |')
out.append('|----|--------|-------|-----------------------------------|--------------------------|')
rows = []
for p in props:
    pid = p['id']
    if pid in cfg:
        ev = {}
        try:
            ev = json.load(open(os.path.join(V, 'evidence', pid + '.json')))
        except Exception:
            pass
        cov = ev.get('coverage', {})
        units = ', '.join(u['unit'] for u in cov.get('units', []))
        out.append('| %s | claimed (%s) | %s | %s / %s | %d |' % (pid, cfg[pid].get('level', 'proof'), units, cov.get('discharged', '?'), cov.get('obligations', '?'), len(cov.get('functions_under_contract', []))))
    else:
        out.append('| %s | **not applicable** | — | — | — |' % pid)
out.append('')
for p in props:
    pid = p['id']
    out.append('### %s — %s' % (pid, p['title']))
    out.append('')
    if pid in cfg:
        c = cfg[pid]
        out.append('**Decided by**: %s' % c.get('technique', 'Verus contracts on the real functions (extracted by vx on every run)' + (' + Kani function contracts / harnesses' if glob.glob(os.path.join(V, 'units', '*', 'kani.json')) and any(pid in json.load(open(k)).get('props', []) for k in glob.glob(os.path.join(V, 'units', '*', 'kani.json'))) else '')))
        out.append('')
        out.append('**What is proved**: ' + c.get('level_text', ''))
        out.append('')
        out.append('**Trusted / assumed**: ' + c.get('level_note', ''))
        out.append('')
        if c.get('not_covered'):
            out.append('**Not covered** (named in every evidence file):')
            for n in c['not_covered']:
                out.append('* ' + n)
            out.append('')
        w = [f for f in kf['findings'] if f['property'] == pid and f.get('status') == 'open']
        if w:
            out.append('**Open known findings**: ' + '; '.join('%s' % (f.get('witness') or f.get('obligation')) for f in w) + ' (see §6).')
            out.append('')
    else:
        out.append('**Not applicable to this technique**: ' + na.get(pid, ''))
        out.append('')
out += ['-' * 117, '', '## 5. Properties not claimed', '']
_unclaimed = [p for p in props if p['id'] not in cfg]
for p in _unclaimed:
    out.append('* **%s** — %s' % (p['id'], na.get(p['id'], '')))
if not _unclaimed:
    out += ['None: every property is claimed for the part of its statement that is a per-call contract on sequential code. C04, C09, C19 and C20 were',
            'declared not applicable as a whole in the first version of this document and are PARTIAL claims now; what stays out of reach of the technique',
            'for each of them (the regex-driven parts of the GRL parser; the forward closure and completeness of the backward search; thread schedules and',
            'interference inside a salience level; crashes, truncation and intermediate directory states of a checkpoint) is listed under **Not covered** in',
            'their §4 entries and in `coverage.not_covered` of their evidence files, and a check of those properties says nothing about it.']
out += ['', '-' * 117, '', '## 6. Genuine defects found', '',
        'Every entry was reproduced on the real crate by a witness (`witness/src/*.rs`, name in brackets) before anything was changed. Repairs are',
        'minimal unguarded `fix:` commits in /repo (the 199 baseline tests pass with each); what is not small and safe to repair is an open finding.', '',
        '### 6.1 Repaired (`fixed:` entries of known_findings.json — they suppress nothing)', '']
for f in kf['fixed']:
    out.append('* ' + f)
out += ['', '### 6.2 Recorded, not repaired (open findings: the check prints KNOWN-FINDING for exactly these and exits 0)', '']
for f in kf['findings']:
    if f.get('status') == 'open':
        out.append('* **%s** [%s]%s — %s' % (f['property'], f.get('witness'), (' obligation `%s`' % f['obligation']) if f.get('obligation') else ' (no contract reaches it: witness only)', f['what']))
out += ['', '-' * 117, '', '## 7. Seeded changes (independent sub-agents; which check catches which change)', '',
        'Each change was written by a fresh sub-agent that saw only the property text and a scratch worktree (nothing from /verif), compiles, passes',
        'the existing tests, and comes with a demonstration that fails with it and passes without (all confirmed by `tool/seedverify.sh`,',
        '`confirmed_by_me` in each meta.json). `tool/seedcheck.sh seeded/*` applies each to a scratch copy of /repo and runs the quick check.',
        'Every result below was measured on the repository tree of its time (`base_commit` in meta.json); /repo has received further `fix:` commits since,',
        'so a patch of an early round may need fuzz or may no longer apply to the current tree.', '',
        'The column `verifier only` is the same run with the witness program switched off (VERIF_NO_WITNESS=1): what the contracts alone decide.', '',
        '| seed | where / what | result | caught by | verifier only |', '|------|--------------|--------|-----------|---------------|']
tot_v = {}
tot = {'VIOLATION': 0, 'UNDECIDED': 0, 'OK': 0}
for d in sorted(glob.glob(os.path.join(V, 'seeded', '*'))):
    try:
        m = json.load(open(os.path.join(d, 'meta.json')))
    except Exception:
        continue
    md = open(os.path.join(d, 'meta.md')).read() if os.path.exists(os.path.join(d, 'meta.md')) else ''
    diff = open(os.path.join(d, 'patch.diff')).read()
    files = sorted(set(re.findall(r'^\+\+\+ b/(\S+)', diff, re.M)))
    fn = re.findall(r'^@@.*@@\s*(.*)$', diff, re.M)
    where = ', '.join(files) + (' (' + fn[0].strip()[:60] + ')' if fn and fn[0].strip() else '')
    res = m.get('check_result_latest', m.get('check_result_first_run', '?'))
    tot[res] = tot.get(res, 0) + 1
    by = m.get('caught_by_latest', '')
    rv = m.get('check_result_verifier_only', '?')
    tot_v[rv] = tot_v.get(rv, 0) + 1
    fr = m.get('check_result_first_run')
    if fr and fr != res:
        res_txt = '%s (first run: %s — %s)' % (res, 'missed' if fr == 'OK' else fr, m.get('note', 'the machinery was extended after this miss')[:220])
    else:
        res_txt = 'missed (OK)' if res == 'OK' else res
    out.append('| %s | %s | %s | %s | %s |' % (m['seed'], where[:110], res_txt, by[:160].replace('|', '/'), ('missed (OK)' if rv == 'OK' else rv) + ((': ' + m.get('caught_by_verifier_only', '')[:90].replace('|', '/')) if rv == 'VIOLATION' else '')))
out += ['', 'Totals: %d caught (VIOLATION), %d undecided (exit 2, counted as missed), %d missed (exit 0).' % (tot.get('VIOLATION', 0), tot.get('UNDECIDED', 0), tot.get('OK', 0)),
        'Verifier only: %d VIOLATION (a named obligation fails), %d UNDECIDED, %d OK, %d not measured.' % (tot_v.get('VIOLATION', 0), tot_v.get('UNDECIDED', 0), tot_v.get('OK', 0), tot_v.get('?', 0)), '']
# harmless refactorings
hs = []
for d in sorted(glob.glob(os.path.join(V, 'seeded_harmless', '*'))):
    try:
        hs.append(json.load(open(os.path.join(d, 'result.json'))))
    except Exception:
        pass
if hs:
    out += ['### 7.1 Behaviour-preserving refactorings (seeded_harmless/, written by independent sub-agents; the check must never say VIOLATION)', '',
            'Each is a patch that compiles, passes the existing tests and preserves behaviour by the argument in its meta.md (helper extraction / inlining,',
            '`if let` <-> `match`, loop <-> iterator chain, renamed locals, reordered independent statements, clippy-style simplifications).', '']
    byp = {}
    for h in hs:
        byp.setdefault(h['property'], []).append(h)
    out += ['| property | OK | UNDECIDED | VIOLATION (false alarm) |', '|----------|----|-----------|-------------------------|']
    for pid in sorted(byp):
        c = {}
        for h in byp[pid]:
            c[h['check_result']] = c.get(h['check_result'], 0) + 1
        out.append('| %s | %d | %d | %d |' % (pid, c.get('OK', 0), c.get('UNDECIDED', 0), c.get('VIOLATION', 0)))
    ca = {}
    for h in hs:
        ca[h['check_result']] = ca.get(h['check_result'], 0) + 1
    out += ['', 'Totals over %d refactorings: %d OK, %d UNDECIDED, %d VIOLATION. The false alarms met on the way are in section 8; each was corrected.' % (len(hs), ca.get('OK', 0), ca.get('UNDECIDED', 0), ca.get('VIOLATION', 0)), '']
tail = os.path.join(V, 'DESIGN.tail.md')
if os.path.exists(tail):
    out += ['-' * 117, '', open(tail).read().rstrip(), '']
open(os.path.join(V, 'DESIGN.md'), 'w').write('\n'.join(out) + '\n')
print('DESIGN.md written: %d lines' % len(out))
