#!/bin/bash
# refresh every evidence file: runs the quick (or $1) command of every check in MANIFEST.json on the current tree
cd "$(dirname "$0")/.."
TIER=${1:-quick}
python3 - "$TIER" <<'PY'
import json, subprocess, sys, time
tier = sys.argv[1]
m = json.load(open('MANIFEST.json'))
bad = 0
for c in m['checks']:
    cmd = c['quick_cmd'] if tier == 'quick' else c.get('thorough_cmd', c['quick_cmd'])
    t0 = time.time()
    p = subprocess.run(cmd, shell=True, capture_output=True, text=True)
    last = [l for l in p.stdout.strip().split('\n') if l][-1:] or ['']
    print('%s rc=%d %.0fs %s' % (c['property_id'], p.returncode, time.time() - t0, last[0][:150]), flush=True)
    bad += p.returncode != 0
sys.exit(1 if bad else 0)
PY
