#!/bin/bash
# usage: muttest.sh <PROP> <file-relative-to-repo> <python-regex-or-literal old> <new>   (literal replace, first occurrence)
# runs the check against a scratch copy of /repo/src with one textual change; /repo is not touched.
set -e
PROP=$1; F=$2; OLD=$3; NEW=$4
S=$(mktemp -d /tmp/mut.XXXXXX)
rsync -a --exclude target --exclude .git /repo/ $S/
python3 - "$S/$F" "$OLD" "$NEW" <<'PY'
import sys
p,old,new=sys.argv[1:4]
s=open(p).read()
assert old in s, "pattern not found"
open(p,'w').write(s.replace(old,new,1))
PY
VERIF_REPO=$S VERIF_NOEVIDENCE=1 /verif/check $PROP | grep -E "^(VIOLATION|UNDECIDED|OK|FAILED-OBLIGATION|KNOWN)" | cut -c1-260
rm -rf $S
