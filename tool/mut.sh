#!/bin/bash
# usage: tool/mut.sh PROP UNITS file 'old text' 'new text'   — one-off mutant on a scratch copy of /repo (first occurrence replaced),
# runs the check of PROP restricted to UNITS (comma list, '' = all) without witness; prints the verdict lines
P=$1; U=$2; F=$3; S=$(mktemp -d /tmp/mx.XXXX); rsync -a --exclude target --exclude .git /repo/ $S/
python3 - "$S/$F" "$4" "$5" <<'PY'
import sys
p,o,n=sys.argv[1:4]; s=open(p).read()
assert o in s, 'old text not found'
open(p,'w').write(s.replace(o,n,1))
PY
cd "$(dirname "$0")/.."; VERIF_ONLY_UNITS=$U VERIF_REPO=$S VERIF_NOEVIDENCE=1 VERIF_NO_WITNESS=1 python3 tool/check.py $P 2>&1 | grep -E "^(OK|VIOLATION|UNDECIDED|FAILED)" | cut -c1-260 | head -4; rm -rf $S
