#!/usr/bin/env python3
"""check <PROPERTY> [--tier quick|thorough] [--replay FILE] [--relock] [--keep]

exit 0  every obligation of the property's units discharged (known findings excepted)
exit 1  + `VIOLATION property=<id> replay=<path> [no-failing-input-found]`
exit 2  + `UNDECIDED property=<id> reason=...`   (never an alarm)
"""
import concurrent.futures as cf
import glob
import hashlib
import json
import os
import re
import shutil
import sys
import time

sys.path.insert(0, os.path.dirname(os.path.abspath(__file__)))
import vlib
from vlib import Undecided, VERIF, BUILD

CFG = {os.path.basename(p)[:-5]: json.load(open(p)) for p in glob.glob(os.path.join(VERIF, 'props', 'C*.json'))}


def units_for(prop):
    out = []
    skip = set(x for x in os.environ.get('VERIF_SKIP_UNITS', '').split(',') if x)   # development aid: units still being written
    only = set(x for x in os.environ.get('VERIF_ONLY_UNITS', '').split(',') if x)
    for tpl in sorted(glob.glob(os.path.join(VERIF, 'units', '*', 'unit.vrs'))):
        name = os.path.basename(os.path.dirname(tpl))
        if name in skip or (only and name not in only):
            continue
        with open(tpl) as f:
            for line in f:
                if line.startswith('//@props'):
                    if prop in line.split()[1:]:
                        out.append(os.path.dirname(tpl))
                    break
    return out


def kani_units_for(prop):
    out = []
    for kj in sorted(glob.glob(os.path.join(VERIF, 'units', '*', 'kani.json'))):
        name = os.path.basename(os.path.dirname(kj))
        if name in os.environ.get('VERIF_SKIP_UNITS', '').split(',') or (os.environ.get('VERIF_ONLY_UNITS') and name not in os.environ['VERIF_ONLY_UNITS'].split(',')):
            continue
        if prop in json.load(open(kj)).get('props', []):
            out.append(os.path.dirname(kj))
    return out


def run_kani_unit(unit_dir, tier):
    """Kani function contracts / harnesses on the REAL crate: attributes and a #[cfg(kani)] module are injected into a scratch
    copy of the repository (never into /repo); every harness is one obligation; loop-free full-domain harnesses are complete."""
    import subprocess
    unit = os.path.basename(unit_dir)
    cfg = json.load(open(os.path.join(unit_dir, 'kani.json')))
    res = {'unit': unit + '(kani)', 'status': 'ok', 'undecided': [], 'failures': [], 'obligations': [], 'assumptions': [],
           'info': {'rewrites': {}, 'stubs': [], 'types': [], 'replacements': [], 'hints_dropped': []}, 'solver_ms': 0, 'wall': 0.0,
           'functions': [], 'vacuity': {'probes': 0, 'failed_as_required': 0}, 'kani': {'complete': [], 'bounded': []}}
    t0 = time.time()
    try:
        repo = vlib.REPO
        import hashlib
        # one scratch copy per repository path (concurrent checks of different trees must not share it)
        sc = os.path.join(BUILD, 'kani', unit, 'repo' if repo == '/repo' else 'repo-' + hashlib.md5(repo.encode()).hexdigest()[:8])
        os.makedirs(sc, exist_ok=True)
        res['_scratch'] = None if repo == '/repo' else sc
        p = subprocess.run(['rsync', '-a', '--delete', '--exclude', 'target', '--exclude', '.git', repo + '/', sc + '/'], capture_output=True, text=True)
        if p.returncode != 0:
            raise Undecided('rsync failed: ' + p.stderr[-300:])
        for inj in cfg.get('inject', []):
            fp = os.path.join(sc, inj['file'])
            if not os.path.exists(fp):
                raise Undecided('lost anchor: %s not found' % inj['file'])
            src = open(fp).read()
            for a in inj.get('attrs', []):
                if src.count(a['before']) != 1:
                    raise Undecided('lost anchor: signature `%s` found %d times in %s' % (a['before'].strip(), src.count(a['before']), inj['file']))
                src = src.replace(a['before'], a['text'] + '\n' + a['before'])
            src += '\n' + open(os.path.join(unit_dir, inj['append'])).read()
            open(fp, 'w').write(src)
        hs = [h for h in cfg['harnesses'] if tier == 'thorough' or not h.get('thorough_only')]
        cmd = ['cargo', 'kani'] + cfg.get('flags', []) + ['--output-format=terse', '-j', str(cfg.get('jobs', 8))]
        for h in hs:
            cmd += ['--harness', h['name']]
        env = dict(os.environ, CARGO_NET_OFFLINE='true')
        res['checker_cmd'] = ' '.join(cmd) + '   (in a scratch copy of the repository with units/%s/%s injected)' % (unit, ','.join(i['append'] for i in cfg.get('inject', [])))
        import signal
        pp = subprocess.Popen(cmd, cwd=sc, stdout=subprocess.PIPE, stderr=subprocess.STDOUT, text=True, env=env, start_new_session=True)
        try:
            out, _ = pp.communicate(timeout=cfg.get('timeout_s', 1200))
        except subprocess.TimeoutExpired:
            try:
                os.killpg(pp.pid, signal.SIGKILL)   # cargo-kani, kani-driver and every cbmc child
            except Exception:
                pass
            pp.wait()
            raise Undecided('cargo kani timed out after %ds' % cfg.get('timeout_s', 1200))
        failed = set(m.group(1).split('::')[-1] for m in re.finditer(r'Verification failed for - (\S+)', out))
        m = re.search(r'Complete - (\d+) successfully verified harnesses, (\d+) failures, (\d+) total', out)
        if not m:
            raise Undecided('cargo kani did not complete (compile error / tool error): ' + out[-700:])
        if int(m.group(3)) != len(hs):
            raise Undecided('cargo kani ran %s harnesses, expected %d' % (m.group(3), len(hs)))
        # a harness counts as REFUTED only when Kani names a failed check for it.  A CBMC crash / out-of-memory / kill (seen under load:
        # several checks in parallel) also prints "Verification failed", and the parallel output interleaves harnesses, so every harness
        # reported as failed is run AGAIN, alone, and classified from that run
        confirmed = set()
        crashy = bool(re.search(r'CBMC failed|out of memory|std::bad_alloc|Killed|SIGKILL', out, re.I))
        if not crashy:
            confirmed = set(failed)   # fast path: no sign of a tool crash anywhere in the output
        for hn in (sorted(failed) if crashy else []):
            try:
                p1 = subprocess.run(['cargo', 'kani'] + cfg.get('flags', []) + ['--output-format=terse', '--harness', hn], cwd=sc, capture_output=True, text=True,
                                    timeout=cfg.get('timeout_s', 1200), env=env, start_new_session=True)
                o1 = p1.stdout + p1.stderr
            except subprocess.TimeoutExpired:
                raise Undecided('kani harness %s: the confirming single run timed out' % hn)
            if re.search(r'VERIFICATION:- SUCCESSFUL', o1) and not re.search(r'VERIFICATION:- FAILED', o1):
                continue   # the failure did not repeat: a tool crash in the parallel run
            if re.search(r'VERIFICATION:- FAILED', o1) and re.search(r'Failed Checks:', o1) and not re.search(r'CBMC failed|out of memory|std::bad_alloc', o1, re.I):
                confirmed.add(hn)
                out += '\n' + o1
                continue
            raise Undecided('kani harness %s did not complete normally (no failed check named: tool crash / memory / kill): %s' % (hn, o1[-300:].replace('\n', ' | ')))
        failed = confirmed
        res['assumptions'] = ['kani: ' + a for a in cfg.get('assumptions', [])]
        for h in hs:
            oid = '%s::kani::%s' % (unit, h.get('label', h['name']))
            ok = h['name'] not in failed
            rec = {'id': oid, 'fn': h.get('fn', h['name']), 'kind': 'kani-harness', 'where': 'complete (loop-free, full domain)' if h.get('complete') else 'BOUNDED: ' + h.get('bound', ''),
                   'text': h.get('what', ''), 'status': 'discharged' if ok else 'failed', 'backend': 'kani/cbmc'}
            if h.get('complete'):
                res['obligations'].append(rec)
                res['kani']['complete'].append(h['name'])
            else:
                res['kani']['bounded'].append({'harness': h['name'], 'bound': h.get('bound', ''), 'passed': ok})
            if not ok:
                detail = ''
                mm = re.search(r'Checking harness \S*%s\.\.\..*?(VERIFICATION RESULT:.*?VERIFICATION:- FAILED)' % re.escape(h['name']), out, re.S)
                # concrete counterexample for the replay file
                cex = ''
                try:
                    if any(f.get('counterexample') is not None for f in res['failures']):
                        raise RuntimeError('one concrete playback per run is enough')
                    pc = subprocess.run(['cargo', 'kani'] + cfg.get('flags', []) + ['-Z', 'concrete-playback', '--concrete-playback=print', '--harness', h['name']],
                                        cwd=sc, capture_output=True, text=True, timeout=600, env=env)
                    mc = re.search(r'Concrete playback unit test.*?```(.*?)```', pc.stdout + pc.stderr, re.S)
                    cex = mc.group(1).strip() if mc else ''
                except Exception:
                    pass
                res['failures'].append({'obligation': oid, 'kind': 'kani', 'fn': h.get('fn'), 'message': 'Kani: contract / assertion refuted in harness %s' % h['name'],
                                        'line': 0, 'text': h.get('what', ''), 'rendered': (mm.group(1)[-1500:] if mm else ''), 'counterexample': cex})
    except Undecided as e:
        res['undecided'].append(str(e))
    if res['failures']:
        res['status'] = 'fail'
    elif res['undecided']:
        res['status'] = 'undecided'
    res['wall'] = time.time() - t0
    if res.get('_scratch'):
        shutil.rmtree(res['_scratch'], ignore_errors=True)   # scratch copies of scratch trees are not kept
    res.pop('_scratch', None)
    return res


def prop_of_label(label):
    if label:
        m = re.match(r'(C\d\d)\.', label)
        if m:
            return m.group(1)
    return None


def run_unit(unit_dir, tier, relock=False, known_ids=()):
    unit = os.path.basename(unit_dir)
    res = {'unit': unit, 'status': 'ok', 'undecided': [], 'failures': [], 'obligations': [], 'assumptions': [],
           'info': {}, 'solver_ms': 0, 'wall': 0.0, 'functions': [], 'vacuity': {'probes': 0, 'failed_as_required': 0}}
    t0 = time.time()
    try:
        # runs against a scratch copy get a build directory of their own (concurrent runs on different trees must not overwrite each
        # other's generated files); it is removed at the end of run_unit
        scratch = os.path.realpath(vlib.REPO) != '/repo'
        bdir = os.path.join(BUILD, unit) if not scratch else os.path.join(BUILD, '%s-%s' % (unit, hashlib.md5(os.path.realpath(vlib.REPO).encode()).hexdigest()[:8]))
        os.makedirs(bdir, exist_ok=True)
        asm = vlib.assemble(unit_dir, 'verify')
        vac = vlib.assemble(unit_dir, 'vacuity')
        src = os.path.join(bdir, unit + '.rs')
        vsrc = os.path.join(bdir, unit + '_vac.rs')
        open(src, 'w').write(asm['gen'].text())
        open(vsrc, 'w').write(vac['gen'].text())
        res['generated'] = src
        res['info'] = asm['info']
        # assumptions
        found = vlib.scan_assumptions(asm['gen'])
        res['assumptions'] = found
        lock = os.path.join(unit_dir, 'ASSUMPTIONS.lock')
        if relock:
            open(lock, 'w').write('\n'.join(sorted(set(found))) + '\n')
        locked = set(open(lock).read().split('\n')) if os.path.exists(lock) else set()
        # specifications the assembler adds by itself from prelude/int_ops.vrs are a fixed, reviewed list: they count as locked
        ap = os.path.join(VERIF, 'prelude', 'int_ops.vrs')
        if os.path.exists(ap):
            locked |= set(l.strip() for l in open(ap).read().split('\n') if l.startswith('pub assume_specification'))
        for a in found:
            if a.startswith('FORBIDDEN'):
                res['undecided'].append(a)
            elif a not in locked:
                res['undecided'].append('new assumption not in ASSUMPTIONS.lock: ' + a)
        # shape lock: the loop structure (number and kind of loops after the rewrites) and the block nesting depth of every anchored
        # statement each function had when its proof was written.  Loop invariants are attached by loop ordinal and hints by statement;
        # if a change adds, removes or converts a loop, or moves an anchored statement into / out of a branch, a failed obligation in
        # that function may be a missing / misplaced proof aid and not the code => undecided, never an alarm
        # `ctrl` (the control skeleton: if / match / return / break / continue / ? / loops in pre-order) is locked too, but it only decides how a
        # failed PROOF HINT (an assertion or lemma call written in the template) is read: hints are written for one control structure of
        # the function; if that structure changed, a hint that no longer holds says the proof has to be rewritten, not that the code is wrong
        shape = {fn['path']: {'loops': fn.get('loop_kinds', []), 'anchor_depths': fn.get('anchor_depths', []), 'ctrl': fn.get('ctrl', [])} for fn in asm['fns'] if not fn['stub']}
        slock = os.path.join(unit_dir, 'SHAPE.lock')
        if relock:
            json.dump(shape, open(slock, 'w'), indent=0, sort_keys=True)
        locked_shape = json.load(open(slock)) if os.path.exists(slock) else {}
        for fn in asm['fns']:
            if fn['stub'] or fn['path'] not in locked_shape:
                continue
            lk, cur = locked_shape[fn['path']], shape[fn['path']]
            if lk.get('loops') != cur['loops'] or lk.get('anchor_depths') != cur['anchor_depths']:
                fn['shape_changed'] = True
            if 'ctrl' in lk and lk['ctrl'] != cur['ctrl']:
                fn['ctrl_changed'] = True
        if asm['info']['hints_dropped']:
            res['hints_dropped'] = asm['info']['hints_dropped']
        extra = []
        cfgp = os.path.join(unit_dir, 'verus_args')
        if os.path.exists(cfgp):
            extra = open(cfgp).read().split()
        with cf.ThreadPoolExecutor(3) as ex:
            f1 = ex.submit(vlib.run_verus, src, extra)
            f2 = ex.submit(vlib.run_verus, vsrc, extra + ['--multiple-errors', '30'])
            f3 = ex.submit(vlib.run_verus, src, extra + ['--rlimit', '20']) if tier == 'thorough' else None
            r1, r2 = f1.result(), f2.result()
            r3 = f3.result() if f3 else None
        res['checker_cmd'] = r1['cmd']
        analyse(res, asm, r1)
        # known findings: if every failure of this unit is a listed finding, blank exactly those clauses (-> `true`) and verify
        # again, so that the remaining obligations of the same functions are decided instead of left unknown
        kf = [f for f in res['failures'] if f['obligation'] in known_ids]
        if kf and len(kf) == len(res['failures']) and not res['undecided']:
            blank = set()
            for fn in asm['fns']:
                for cl in fn['clauses']:
                    if cl.get('id') in set(f['obligation'] for f in kf):
                        blank.add((cl['first'], cl['last']))
            g2 = vlib.Gen()
            for t, o in asm['gen'].lines:
                rng = [b for b in blank if o[0] == 'tpl' and isinstance(o[1], int) and b[0] <= o[1] <= b[1]]
                if rng:
                    if o[1] == rng[0][0]:
                        m = re.match(r'\s*(requires|ensures|invariant_except_break|invariant|decreases)\b', t)
                        t = (m.group(1) + ' ' if m else '') + 'true, // known finding: clause checked separately'
                    else:
                        t = ''
                g2.lines.append((t, o))
            src2 = os.path.join(bdir, unit + '_kf.rs')
            open(src2, 'w').write(g2.text())
            r1b = vlib.run_verus(src2, extra)
            keep_fail = res['failures']
            res2 = dict(res, failures=[], obligations=[], undecided=[], functions=[])
            asm2 = dict(asm, gen=g2)
            analyse(res2, asm2, r1b)
            known_set = set(f['obligation'] for f in kf)
            obl = []
            for o in res2['obligations']:
                if o['id'] in known_set:
                    o['status'] = 'known-finding'
                obl.append(o)
            res['obligations'] = obl
            res['failures'] = keep_fail + res2['failures']
            res['undecided'] = res2['undecided']
            res['functions'] = res2['functions']
            res['known_pass'] = {'file': src2, 'blanked_clauses': sorted(known_set)}
        analyse_vacuity(res, vac, r2, extra)
        if r3 is not None:
            res['rlimit_recheck'] = {'rc': r3['rc'], 'note': 'same file with --rlimit 20 (informational: stability of the proof)'}
    except Undecided as e:
        res['undecided'].append(str(e))
    if res['failures']:
        res['status'] = 'fail'
    elif res['undecided']:
        res['status'] = 'undecided'
    res['wall'] = time.time() - t0
    try:
        if os.path.realpath(vlib.REPO) != '/repo' and '--keep' not in sys.argv:
            shutil.rmtree(os.path.join(BUILD, '%s-%s' % (unit, hashlib.md5(os.path.realpath(vlib.REPO).encode()).hexdigest()[:8])), ignore_errors=True)
    except Exception:
        pass
    return res


def line_origin(gen, n):
    if 1 <= n <= len(gen.lines):
        return gen.lines[n - 1]
    return ('', ('none',))


def fn_at(asm, n):
    for fn in asm['fns']:
        if fn['first_line'] <= n <= fn['last_line']:
            return fn
    return None


def clause_at(fn, tpl_line):
    for cl in fn['clauses']:
        if cl['first'] <= tpl_line <= cl['last']:
            return cl
    return None


def clause_id(unit, cl, n):
    return '%s::%s::%s' % (unit, cl['fn'], cl['label'] or ('%s#%d' % (cl['kind'], n)))


def analyse(res, asm, r):
    unit = res['unit']
    gen = asm['gen']
    js = r['json']
    vr = (js or {}).get('verification-results')
    # --- obligations table ---------------------------------------------------------------
    obl = []
    for fn in asm['fns']:
        if fn['stub']:
            continue
        cnt = {}
        for cl in fn['clauses']:
            if cl['kind'] in ('ensures', 'invariant', 'decreases', 'invariant_except_break', 'ensures_on_break', 'returns', 'assert'):
                cnt[cl['kind']] = cnt.get(cl['kind'], 0) + 1
                cl['id'] = clause_id(unit, cl, cnt[cl['kind']])
                obl.append({'id': cl['id'], 'fn': fn['path'], 'kind': cl['kind'], 'where': cl['where'], 'text': cl['text'][:240], 'status': 'unknown', 'backend': 'verus/z3'})
        obl.append({'id': '%s::%s::safety' % (unit, fn['path']), 'fn': fn['path'], 'kind': 'implicit',
                    'text': 'no overflow / index in bounds / callee preconditions / proof-hint assertions / termination', 'status': 'unknown', 'backend': 'verus/z3'})
    # --- diagnostics ----------------------------------------------------------------------
    fails = []
    for d in r['diags']:
        cls, kind = vlib.classify(d)
        if cls == 'ignore':
            continue
        if cls == 'undecided':
            res['undecided'].append(kind[:400] + ' :: ' + (d.get('rendered') or '')[:600])
            continue
        spans = d.get('spans', [])
        prim = [s for s in spans if s.get('is_primary')] or spans
        pl = prim[0]['line_start'] if prim else 0
        fn = fn_at(asm, pl)
        oid = None
        detail = d.get('message', '')
        text, org = line_origin(gen, pl)
        if kind in ('postcondition', 'invariant', 'decreases') and fn and org[0] == 'tpl':
            cl = clause_at(fn, org[1])
            if cl and 'id' in cl:
                oid = cl['id']
        if oid is None and kind in ('postcondition', 'invariant', 'decreases') and fn:
            # the clause may sit in a secondary span (primary = the `continue` / `break` / `return` at which it fails)
            for s2 in [x for x in spans if not x.get('is_primary')]:
                fname = str(s2.get('file_name', ''))
                if not (fname.endswith('/%s.rs' % unit) or fname == '%s.rs' % unit):
                    continue
                t2, o2 = line_origin(gen, s2['line_start'])
                if o2[0] == 'tpl' and fn_at(asm, s2['line_start']) is fn:
                    cl = clause_at(fn, o2[1])
                    if cl and 'id' in cl:
                        oid = cl['id']
                        break
        if kind == 'precondition':
            # name the callee clause if we can
            sec = [s for s in spans if not s.get('is_primary')]
            lab = None
            for s in sec:
                fname = str(s.get('file_name', ''))
                if not fname.endswith('/%s.rs' % unit) and fname != '%s.rs' % unit:
                    # the failed precondition belongs to a function specified by vstd (unwrap / expect / index / slice / ...)
                    lab = 'vstd:%s:%s' % (fname, s.get('line_start'))
                    continue
                t2, o2 = line_origin(gen, s['line_start'])
                cfn = fn_at(asm, s['line_start'])
                if cfn and o2[0] == 'tpl':
                    cl = clause_at(cfn, o2[1])
                    if cl:
                        lab = '%s.%s' % (cfn['path'], cl['label'] or 'requires')
                if lab is None:
                    lab = t2.strip()[:80]
            if fn:
                oid = '%s::%s::call-pre(%s)' % (unit, fn['path'], lab or 'callee')
        if oid is None and fn:
            if org[0] == 'tpl' and kind == 'assertion':
                lm = re.search(r'/\*\s*(C\d\d\.[A-Za-z0-9_.\-]+)\s*\*/', text)
                if lm:
                    oid = '%s::%s::%s' % (unit, fn['path'], lm.group(1))
                else:
                    oid = '%s::%s::hint-assert@tpl%d' % (unit, fn['path'], org[1])
            else:
                oid = '%s::%s::safety(%s)' % (unit, fn['path'], kind)
        if oid is None:
            # a lemma or raw template function
            oid = '%s::template@%s::%s' % (unit, org[1] if org[0] == 'tpl' else '?', kind)
        rec = {'obligation': oid, 'kind': kind, 'fn': fn['path'] if fn else None, 'message': detail,
               'line': pl, 'text': text.strip(), 'rendered': d.get('rendered', '')[:3000]}
        is_hint = fn is not None and org[0] == 'tpl' and kind in ('assertion', 'precondition') and not re.search(r'::C\d\d\.', oid)
        if is_hint and fn.get('ctrl_changed'):
            res['undecided'].append('proof hint %s failed in %s, whose control structure (if / match / return / loops) differs from the one the hint was written for (SHAPE.lock): the proof has to be redone, not reported as a violation (%s)' % (oid, fn['path'], detail))
            continue
        if fn and (fn.get('inlined') or fn.get('anchors_lost') or fn.get('shape_changed')):
            # the proof of this function was written for another shape of the code (a helper was inlined by R23 / a hint lost its
            # anchor): a failed obligation here may be the missing proof aid and not the code => undecided, never an alarm
            res['undecided'].append('obligation %s failed in %s, whose %s: not reported as a violation (%s)' % (
                oid, fn['path'], 'helper calls were inlined (R23)' if fn.get('inlined') else ('loop structure / nesting of the anchored statements differs from the one its proof was written for (SHAPE.lock)' if fn.get('shape_changed') else 'proof hints lost their anchor'), detail))
            continue
        fails.append(rec)
    if js is None or vr is None:
        res['undecided'].append('verus produced no result json: ' + r['stderr'][-800:])
    elif vr.get('encountered-vir-error') or (vr.get('encountered-error') and not fails and not res['undecided']):
        res['undecided'].append('verus stopped before verification: ' + r['stderr'][-800:])
    # --- statuses -------------------------------------------------------------------------
    failed_fns = set(f['fn'] for f in fails if f['fn'])
    failed_ids = set(f['obligation'] for f in fails)
    verified_any = bool(vr and vr.get('verified', 0) > 0)
    for o in obl:
        if o['id'] in failed_ids or (o['kind'] == 'implicit' and any(f['fn'] == o['fn'] and f['obligation'].startswith(o['id']) for f in fails)):
            o['status'] = 'failed'
        elif o['fn'] in failed_fns:
            o['status'] = 'unknown'
        elif js is not None and vr is not None and not vr.get('encountered-vir-error') and (verified_any or not fails) and not any('stopped before' in u or 'no result json' in u or 'compiler error' in u for u in res['undecided']):
            o['status'] = 'discharged'
    # lemmas / template proof functions from the breakdown
    if js:
        try:
            mods = js['times-ms']['smt']['smt-run-module-times']
            res['solver_ms'] = js['times-ms']['smt'].get('smt-run', 0)
            stem = unit
            for m in mods:
                for fb in m.get('function-breakdown', []):
                    name = fb['function']
                    mode = fb.get('mode:', fb.get('mode', ''))
                    res['functions'].append({'function': name, 'mode': mode, 'success': fb['success'], 'time_us': fb.get('time-micros', 0), 'rlimit': fb.get('rlimit')})
                    if mode == 'proof':
                        obl.append({'id': '%s::lemma::%s' % (unit, name.split('::', 1)[-1]), 'fn': name, 'kind': 'lemma', 'text': 'proof fn', 'status': 'discharged' if fb['success'] else 'failed', 'backend': 'verus/z3', 'time_us': fb.get('time-micros', 0)})
        except KeyError:
            pass
    # attach times to exec obligations (by suffix)
    for o in obl:
        for f in res['functions']:
            if o['kind'] != 'lemma' and f['function'].endswith('::' + o['fn'].split('>::')[-1].replace('::', '::')):
                o.setdefault('time_us', f['time_us'])
    res['obligations'] = obl
    res['failures'] = fails
    res['verus_summary'] = vr


def analyse_vacuity(res, vac, r, extra_args=None):
    extra_args = extra_args or []
    gen = vac['gen']
    probes = [(n + 1, o) for n, (t, o) in enumerate(gen.lines) if o[0] == 'probe']
    res['vacuity']['probes'] = len(probes)
    if r['json'] is None or (r['json'].get('verification-results') or {}).get('encountered-vir-error'):
        res['undecided'].append('vacuity probe file did not reach verification: ' + r['stderr'][-500:])
        return
    if any(vlib.classify(d)[0] == 'undecided' for d in r['diags']):
        res['undecided'].append('vacuity probe file did not verify cleanly (compiler / tool error)')
        return
    hit = set()
    for d in r['diags']:
        if d.get('level') == 'error' and 'assertion failed' in d.get('message', ''):
            for s in d.get('spans', []):
                hit.add(s['line_start'])
    ok = 0
    missed = [(n, o) for n, o in probes if n not in hit]
    ok = len(probes) - len(missed)
    if missed:
        # after a first refuted probe Verus may assume it for the rest of the same query (e.g. loop_isolation(false)):
        # re-run each unrefuted probe ALONE (the other probe lines blanked, line numbers kept) before believing it
        def solo(item):
            n, o = item
            lines = [('' if (oo[0] == 'probe' and k + 1 != n) else t) for k, (t, oo) in enumerate(gen.lines)]
            path = os.path.join(os.path.dirname(res['generated']) if res.get('generated') else os.path.join(BUILD, res['unit']), '%s_vac_%d.rs' % (res['unit'], n))
            open(path, 'w').write('\n'.join(lines) + '\n')
            rr = vlib.run_verus(path, extra_args)
            try:
                os.remove(path)
            except OSError:
                pass
            for d in rr['diags']:
                if d.get('level') == 'error' and 'assertion failed' in d.get('message', ''):
                    if any(sp['line_start'] == n for sp in d.get('spans', [])):
                        return True
            return False
        with cf.ThreadPoolExecutor(min(8, len(missed))) as ex:
            outcome = list(ex.map(solo, missed))
        for (n, o), good in zip(missed, outcome):
            if good:
                ok += 1
            else:
                res['undecided'].append('vacuity: `assert(false)` at %s of %s was NOT refuted (contradictory precondition / invariant or unreachable code)' % (o[2], o[1]))
    res['vacuity']['failed_as_required'] = ok


# ------------------------------------------------------------------------------------------------
def run_witness(prop, only=None, force_tier=None):
    """bounded witness search / replay of recorded histories against the REAL crate; never decides 'holds'"""
    import subprocess
    pref = only or prop.lower()
    t0 = time.time()
    try:
        tier = force_tier or (sys.argv[sys.argv.index('--tier') + 1] if '--tier' in sys.argv[:-1] else os.environ.get('VERIF_TIER', 'quick'))
        p = subprocess.run([os.path.join(VERIF, 'tool', 'witness.sh'), pref], capture_output=True, text=True, timeout=1500,
                           env=dict(os.environ, VERIF_TIER='thorough' if tier == 'thorough' else 'quick'))
    except subprocess.TimeoutExpired:
        return {'ran': False, 'reason': 'witness timed out', 'results': []}
    res = []
    for line in p.stdout.split('\n'):
        m = re.match(r'(REPRODUCED|NOT-REPRODUCED) (\S+) ?(.*)', line)
        if m:
            res.append({'name': m.group(2), 'reproduced': m.group(1) == 'REPRODUCED', 'detail': m.group(3)})
    if p.returncode == 2 and not res:
        return {'ran': False, 'reason': 'no witness program for this property', 'results': []}
    if p.returncode != 0 and not res:
        return {'ran': False, 'reason': 'witness build/run failed: ' + (p.stderr or '')[-600:], 'results': []}
    return {'ran': True, 'wall_s': round(time.time() - t0, 1), 'results': res}


def load_known():
    p = os.path.join(VERIF, 'known_findings.json')
    if os.path.exists(p):
        return json.load(open(p))
    return {'findings': []}


def main():
    args = sys.argv[1:]
    if not args:
        print(__doc__)
        return 2
    prop = args[0]
    tier = os.environ.get('VERIF_TIER', 'quick')
    relock = '--relock' in args
    replay = None
    if '--tier' in args:
        tier = args[args.index('--tier') + 1]
    if '--replay' in args:
        replay = args[args.index('--replay') + 1]
    seed = int(os.environ.get('VERIF_SEED', '0') or 0)
    t0 = time.time()
    cfg = CFG.get(prop, {})
    unit_dirs = units_for(prop)
    kani_dirs = kani_units_for(prop)
    if not unit_dirs and not kani_dirs:
        print('UNDECIDED property=%s reason=no unit serves this property' % prop)
        return 2
    known = [k for k in load_known()['findings'] if k.get('property') == prop and k.get('status') == 'open']
    known_ids = {k['obligation']: k for k in known}
    with cf.ThreadPoolExecutor(max(1, min(8, len(unit_dirs) + len(kani_dirs)))) as ex:
        fk = [ex.submit(run_kani_unit, u, tier) for u in kani_dirs]
        results = list(ex.map(lambda u: run_unit(u, tier, relock, tuple(known_ids)), unit_dirs))
        results += [f.result() for f in fk]

    obligations, failures, undecided, foreign = [], [], [], []
    also = tuple(cfg.get('also_counts', []))   # labels of another property's contracts that carry this property too

    def mine(label):
        p = prop_of_label(label)
        return p is None or p == prop or (also and label.startswith(also))

    for r in results:
        for o in r['obligations']:
            if mine(o['id'].split('::')[-1]):
                obligations.append(o)
        for f in r['failures']:
            if mine(f['obligation'].split('::')[-1]):
                f['unit'] = r['unit']
                failures.append(f)
            else:
                foreign.append(f['obligation'])
        for u in r['undecided']:
            undecided.append('%s: %s' % (r['unit'], u))
    new_fail = [f for f in failures if f['obligation'] not in known_ids]
    seen_known = [f for f in failures if f['obligation'] in known_ids]

    if replay and json.load(open(replay)).get('witness'):
        want = json.load(open(replay))
        w = run_witness(prop, only=want['witness'], force_tier=want.get('tier'))   # a failing input found at thorough bounds needs those bounds again
        hit = [r for r in w['results'] if r['reproduced']]
        for r in w['results']:
            print('REPLAY %s %s %s' % ('REPRODUCED' if r['reproduced'] else 'NOT-REPRODUCED', r['name'], r['detail']))
        return 1 if hit else 0
    if replay:
        want = json.load(open(replay))
        ids = set(x['obligation'] for x in want.get('failed_obligations', []))
        still = [f for f in failures if f['obligation'] in ids]
        print('REPLAY property=%s obligations=%d still_failing=%d' % (prop, len(ids), len(still)))
        for f in still:
            print('  FAILS %s :: %s' % (f['obligation'], f['message']))
        return 1 if still else 0

    # concrete failing inputs: searched only when something failed / is undecided, or in the thorough tier (conformance)
    witness = {'ran': False, 'reason': 'disabled by VERIF_NO_WITNESS', 'results': []}
    known_w = {k.get('witness'): k for k in known if k.get('witness')}
    # the witness program runs in both tiers: it is cheap, it is the only source of concrete failing inputs, and it reaches code
    # that no contract covers (listed under not_covered).  It never turns anything into 'proved'.
    if not os.environ.get('VERIF_NO_WITNESS'):
        witness = run_witness(prop)
    w_hits = [r for r in witness['results'] if r['reproduced']]
    new_w = [r for r in w_hits if r['name'] not in known_w]
    kf_obl = [o for o in obligations if o['status'] == 'known-finding']
    obligations = [o for o in obligations if o['status'] != 'known-finding']
    n_obl = len(obligations)
    n_dis = sum(1 for o in obligations if o['status'] == 'discharged')
    trusted = []
    for r in results:
        for a in r['assumptions']:
            trusted.append('%s: %s' % (r['unit'], a))
    trusted += cfg.get('trusted_base', [])
    samples = [{'obligation': o['id'], 'kind': o['kind'], 'status': o['status'], 'backend': o['backend'], 'solver_time_us': o.get('time_us'), 'text': o['text']} for o in obligations][:400]
    ev = {
        'property_id': prop,
        'tier': tier,
        'seed': seed,
        'level': cfg.get('level', 'proof'),
        'coverage': {
            'obligations': n_obl,
            'discharged': n_dis,
            'checker_cmd': '; '.join(r.get('checker_cmd', '') for r in results),
            'trusted_base': trusted,
            'samples': samples,
            'explanation': cfg.get('explanation', ''),
            'functions_under_contract': sorted(set('%s (%s)' % (o['fn'], r['unit']) for r in results for o in r['obligations'] if o['kind'] != 'lemma')),
            'units': [{'unit': r['unit'], 'status': r['status'], 'generated_file': r.get('generated'), 'rewrites_applied': r['info'].get('rewrites'),
                       'pinned_replacements': r['info'].get('replacements'), 'stubs': r['info'].get('stubs'), 'types_extracted': r['info'].get('types'),
                       'hints_dropped': r['info'].get('hints_dropped'), 'vacuity': r['vacuity'], 'solver_ms': r['solver_ms'], 'wall_s': round(r['wall'], 2),
                       'verus_summary': r.get('verus_summary'), 'rlimit_recheck': r.get('rlimit_recheck'), 'kani': r.get('kani')} for r in results],
            'not_covered': cfg.get('not_covered', []),
            'undecided': undecided,
            'failed_obligations': [f['obligation'] for f in failures],
            'known_findings_seen': [f['obligation'] for f in seen_known],
            'known_finding_obligations_not_counted': [o['id'] for o in kf_obl],
            'solver_time_s': round(sum(r['solver_ms'] for r in results) / 1000.0, 3),
            'witness_search': dict(witness, note='bounded enumeration / recorded histories executed on the real crate through its public API; used only to attach a concrete failing input to a violation (and as conformance check of the contracts in the thorough tier); never counted as proof'),
        },
        'assumptions': trusted + cfg.get('assumptions', []),
        'wall_s': round(time.time() - t0, 2),
        'violations': len(new_fail) + len(new_w),
    }
    # evidence describes /repo itself: runs against a scratch copy / worktree (VERIF_REPO) or with a unit filter never write it
    if not (os.environ.get('VERIF_NOEVIDENCE') or os.environ.get('VERIF_SKIP_UNITS') or os.environ.get('VERIF_ONLY_UNITS') or os.path.realpath(vlib.REPO) != '/repo'):
        os.makedirs(os.path.join(VERIF, 'evidence'), exist_ok=True)
        json.dump(ev, open(os.path.join(VERIF, 'evidence', prop + '.json'), 'w'), indent=1)

    failing_ids = set(f['obligation'] for f in failures)
    reproduced = set(r['name'] for r in w_hits)
    for k in known:
        if (k.get('obligation') and k['obligation'] in failing_ids) or (k.get('witness') and k['witness'] in reproduced):
            print('KNOWN-FINDING: property=%s %s — %s' % (prop, k.get('obligation') or ('witness ' + k['witness']), k.get('what', '')))
    if new_w:
        os.makedirs(os.path.join(VERIF, 'replay'), exist_ok=True)
        rp = os.path.join(VERIF, 'replay', '%s-%d.json' % (prop, int(time.time())))
        json.dump({'property': prop, 'kind': 'failing-input', 'tier': tier, 'witness': new_w[0]['name'], 'failing_input': new_w[0]['detail'],
                   'note': 'concrete input executed on the real crate (witness/src); re-run: ./check %s --replay <this file>' % prop,
                   'failed_obligations': new_fail, 'undecided': undecided}, open(rp, 'w'), indent=1)
        for f in new_fail:
            print('FAILED-OBLIGATION %s :: %s :: %s' % (f['obligation'], f['message'], f['text']))
        for r in new_w:
            print('FAILING-INPUT %s :: %s' % (r['name'], r['detail']))
        print('VIOLATION property=%s replay=%s' % (prop, rp))
        return 1
    if new_fail:
        os.makedirs(os.path.join(VERIF, 'replay'), exist_ok=True)
        rp = os.path.join(VERIF, 'replay', '%s-%d.json' % (prop, int(time.time())))
        json.dump({'property': prop, 'kind': 'failed-obligation', 'failing_input': None,
                   'note': 'Verus gives no counterexample; the obligations below were discharged on the unchanged tree and are refuted on this tree. '
                           're-run: tool/check.py %s --replay <this file>' % prop,
                   'failed_obligations': new_fail}, open(rp, 'w'), indent=1)
        for f in new_fail:
            print('FAILED-OBLIGATION %s :: %s :: %s' % (f['obligation'], f['message'], f['text']))
        has_cex = any(f.get('counterexample') for f in new_fail)
        print('VIOLATION property=%s replay=%s%s' % (prop, rp, '' if has_cex else ' no-failing-input-found'))
        return 1
    if undecided:
        for u in undecided:
            print('  undecided: ' + u[:600].replace('\n', ' | '))
        print('UNDECIDED property=%s reason=%s' % (prop, undecided[0][:200].replace('\n', ' ')))
        return 2
    if n_obl == 0 or n_dis != n_obl:
        print('UNDECIDED property=%s reason=obligations=%d discharged=%d%s' % (prop, n_obl, n_dis,
              (' (an obligation labelled for another property failed in the same function and leaves this property\'s obligations there unverified: %s)' % ', '.join(foreign[:3])) if foreign else ''))
        return 2
    print('OK property=%s obligations=%d discharged=%d units=%s wall=%.1fs' % (prop, n_obl, n_dis, ','.join(r['unit'] for r in results), time.time() - t0))
    return 0


if __name__ == '__main__':
    sys.exit(main())
