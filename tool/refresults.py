#!/usr/bin/env python3
"""fold a refcheck log (tool/refcheck.sh seeded_harmless/*) into seeded_harmless/<id>/result.json"""
import json, os, re, sys
V = os.path.dirname(os.path.dirname(os.path.abspath(__file__)))
for l in open(sys.argv[1]):
    m = re.match(r'(C\d\d)/(C\d\d-h\d+) :: (\S+)', l.strip())
    if not m:
        continue
    d = os.path.join(V, 'seeded_harmless', m.group(2))
    if os.path.isdir(d):
        json.dump({'property': m.group(1), 'refactor': m.group(2), 'check_result': m.group(3), 'output': l.strip()[:400]}, open(os.path.join(d, 'result.json'), 'w'), indent=1)
