#!/usr/bin/env python3
"""fold a seedcheck log into seeded/*/meta.json (check_result_latest, caught_by_latest); with --verifier-only as 2nd argument the log
comes from `VERIF_NO_WITNESS=1 tool/seedcheck.sh ..` and is stored as check_result_verifier_only / caught_by_verifier_only"""
import json, os, re, sys
V = os.path.dirname(os.path.dirname(os.path.abspath(__file__)))
for l in open(sys.argv[1]):
    m = re.match(r'(C\d\d)/(C\d\d-(?:r[234]-)?\d) :: (\S+)[^:]*(?::: (.*))?', l.strip())
    if not m:
        continue
    d = os.path.join(V, 'seeded', m.group(2))
    mj = json.load(open(os.path.join(d, 'meta.json')))
    vo = len(sys.argv) > 2 and sys.argv[2] == '--verifier-only'
    mj['check_result_verifier_only' if vo else 'check_result_latest'] = m.group(3)
    rest = l.split(' :: ', 2)[2] if l.count(' :: ') >= 2 else ''
    ids = re.findall(r'(?:FAILED-OBLIGATION|FAILING-INPUT) (\S+)', rest)
    mj['caught_by_verifier_only' if vo else 'caught_by_latest'] = ', '.join(ids[:3])
    if not vo:
        mj['check_output_latest'] = l.strip()[:500]
    json.dump(mj, open(os.path.join(d, 'meta.json'), 'w'), indent=1)
