#!/usr/bin/env python3
"""Regenerate MANIFEST.json from props_cfg.json (claimed checks) and not_applicable.json."""
import json, os, sys
V = os.path.dirname(os.path.dirname(os.path.abspath(__file__)))
import glob
cfg = {os.path.basename(p)[:-5]: json.load(open(p)) for p in glob.glob(os.path.join(V, 'props', 'C*.json'))}
na = json.load(open(os.path.join(V, 'not_applicable.json')))
checks = []
for pid in sorted(cfg):
    c = cfg[pid]
    checks.append({
        'property_id': pid,
        'quick_cmd': './check %s --tier quick' % pid,
        'thorough_cmd': './check %s --tier thorough' % pid,
        'evidence_file': 'evidence/%s.json' % pid,
        'replay_cmd_template': './check %s --replay {path}' % pid,
        'engine': 'vx+verus' + ('+kani' if c.get('kani') else ''),
        'level_claimed': {'category': c.get('level', 'proof'), 'text': c['level_text'], 'design_ref': c.get('design_ref', 'DESIGN.md §4/' + pid)},
        'level_note': c['level_note'],
        'technique': c.get('technique', 'contract-based deductive verification: Verus contracts on the real functions (extracted mechanically by vx on every run)'),
    })
claimed = set(cfg)
m = {
    'version': 1,
    'setup_cmd': 'cd vx && CARGO_NET_OFFLINE=true cargo build --release --offline',
    'hooks': {
        'guard': 'none',
        'enable': 'no hooks: contracts are attached to functions extracted from /repo at run time by /verif/vx; Kani attributes are injected into a scratch copy; /repo carries only fix: commits',
        'baseline_off_cmd': 'cd /repo && cargo test --workspace --no-fail-fast --offline',
        'source_commits': [],
        'add_only': True,
    },
    'engines': [
        {'name': 'vx', 'path': 'vx/', 'serves_properties': sorted(claimed), 'kind_free_text': 'syn-based extractor: real items of /repo -> single-file Verus input, closed rewrite table (DESIGN §2.2)'},
        {'name': 'verus', 'path': 'tool/check.py', 'serves_properties': sorted(claimed), 'kind_free_text': 'Verus 0.2026.09.13 / Z3: discharges every contract obligation function by function, unbounded'},
    ],
    'checks': checks,
    'notes': 'exit 0 = all obligations discharged; exit 1 + VIOLATION = an obligation that is discharged on the unchanged tree is refuted; exit 2 + UNDECIDED = lost anchor / unsupported construct / tool limit (never an alarm). See DESIGN.md.',
    'not_applicable': [x for x in na if x['property_id'] not in claimed],
}
json.dump(m, open(os.path.join(V, 'MANIFEST.json'), 'w'), indent=1)
print('MANIFEST.json: %d checks, %d not_applicable' % (len(checks), len(m['not_applicable'])))
