#!/bin/bash
# usage: refcheck.sh <dir with patch.diff> ...   (harmless refactorings: the check must NOT print VIOLATION)
cd /verif
for d in "$@"; do
  d=$(cd $d && pwd)
  P=$(echo $d | grep -o 'C[0-9][0-9]' | head -1)
  i=$(basename $d)
  S=$(mktemp -d /tmp/rc.XXXXXX)
  rsync -a --exclude target --exclude .git /repo/ $S/
  if ! (cd $S && git apply $d/patch.diff 2>/dev/null || patch -p1 -s < $d/patch.diff >/dev/null 2>&1); then echo "$P/$i APPLY-FAILED"; rm -rf $S; continue; fi
  out=$(VERIF_REPO=$S VERIF_NOEVIDENCE=1 ./check $P 2>&1)
  v=$(echo "$out" | grep -E "^(VIOLATION|UNDECIDED|OK)" | head -1 | cut -c1-200)
  f=$(echo "$out" | grep -E "^(FAILED-OBLIGATION|FAILING-INPUT)" | head -2 | cut -c1-200 | tr '\n' '|')
  echo "$P/$i :: $v :: $f"
  rm -rf $S
done
