//! C10, FIRST sentence, companion of unit exec_writes: "A backward-chaining query that is reported not provable leaves the caller's
//! facts exactly as they were before the call."  GRL queries whose goal is a CONJUNCTION `A && B [&& C]` (GRLQueryExecutor::execute ->
//! execute_compound_and_goal: one BackwardEngine::query per operand), which c10.rs / c10b.rs / search_frames.rs do not ask.
//! Register in main.rs with `mod exec_writes;` and `all.extend(exec_writes::witnesses());`.
//!
//!   c10_grl_conjunction_keeps_first_operand_facts
//!        fixed history (found by reading while building unit exec_writes, then failed by Verus:
//!        C10.a_conjunctive_query_reported_not_provable_leaves_the_facts_as_they_were): rule p_from_a: A.v == true => P.v = true, facts
//!        {A.v: true}, query goal `P.v == true && Q.v == true` -> reported NOT provable, P.v = true left behind (before the fix commit)
//!   c10_grl_conjunction_search
//!        every rule set of <= 3 rules out of a pool of 6, 2 start states, every ordered conjunction of 2 or 3 distinct atoms out of
//!        P/Q/G == true, the three strategies.  The queries have NO action blocks (on-success / on-failure actions write the facts by
//!        design).  Reference from the statement: if execute returns Ok with provable == false, the facts afterwards equal the facts
//!        before, and a rollback_undo_frame() issued by the caller right after changes nothing (no frame left open).  Calls that
//!        return Err or panic are skipped.
use rust_rule_engine::backward::{BackwardConfig, BackwardEngine, GRLQueryExecutor, GRLQueryParser, SearchStrategy};
use rust_rule_engine::{ActionType, Condition, ConditionGroup, Facts, KnowledgeBase, Operator, Rule, Value};
use std::panic::{catch_unwind, AssertUnwindSafe};

fn atom(f: &str, b: bool) -> ConditionGroup {
    ConditionGroup::single(Condition::new(format!("{}.v", f), Operator::Equal, Value::Boolean(b)))
}
fn set(f: &str, b: bool) -> ActionType {
    ActionType::Set { field: format!("{}.v", f), value: Value::Boolean(b) }
}

struct Tmpl {
    name: &'static str,
    conds: &'static [(&'static str, bool)],
    acts: &'static [(&'static str, bool)],
}

const POOL: [Tmpl; 6] = [
    Tmpl { name: "p_from_a", conds: &[("A", true)], acts: &[("P", true)] },
    Tmpl { name: "q_from_a", conds: &[("A", true)], acts: &[("Q", true)] },
    Tmpl { name: "q_from_b", conds: &[("B", true)], acts: &[("Q", true)] },
    Tmpl { name: "g_from_pq", conds: &[("P", true), ("Q", true)], acts: &[("G", true)] },
    Tmpl { name: "g_from_p", conds: &[("P", true)], acts: &[("G", true)] },
    Tmpl { name: "p_wrong_from_a", conds: &[("A", true)], acts: &[("P", false)] },
];

fn build_rule(t: &Tmpl) -> Rule {
    let mut it = t.conds.iter();
    let (f0, b0) = it.next().unwrap();
    let mut g = atom(f0, *b0);
    for (f, b) in it {
        g = ConditionGroup::and(g, atom(f, *b));
    }
    Rule::new(t.name.to_string(), g, t.acts.iter().map(|(f, b)| set(f, *b)).collect())
}

fn sorted(f: &Facts) -> Vec<(String, String)> {
    let mut v: Vec<(String, String)> = f.get_all_facts().into_iter().map(|(k, v)| (k, format!("{:?}", v))).collect();
    v.sort();
    v
}

/// one GRL conjunction query; Some(description) if a not-provable answer changed the facts or left a frame open
fn ask(rules: &[usize], start: &[(&str, bool)], goal: &str, strategy: SearchStrategy) -> Option<String> {
    let r = catch_unwind(AssertUnwindSafe(|| {
        let kb = KnowledgeBase::new("w");
        for &i in rules {
            if kb.add_rule(build_rule(&POOL[i])).is_err() {
                return None;
            }
        }
        let mut engine = BackwardEngine::with_config(
            kb,
            BackwardConfig { strategy: strategy.clone(), enable_memoization: false, ..Default::default() },
        );
        let mut facts = Facts::new();
        for (f, b) in start {
            facts.set(&format!("{}.v", f), Value::Boolean(*b));
        }
        let before = sorted(&facts);
        let text = format!("query \"W\" {{\n goal: {}\n}}", goal);
        let q = match GRLQueryParser::parse(&text) {
            Ok(q) => q,
            Err(_) => return None,
        };
        let res = match GRLQueryExecutor::execute(&q, &mut engine, &mut facts) {
            Ok(r) => r,
            Err(_) => return None,
        };
        if res.provable {
            return None;
        }
        let after = sorted(&facts);
        if after != before {
            return Some(format!("facts before {:?}, after {:?}", before, after));
        }
        facts.rollback_undo_frame();
        let after_rb = sorted(&facts);
        if after_rb != before {
            return Some(format!("a frame was left open: the caller's rollback changed the facts from {:?} to {:?}", before, after_rb));
        }
        None
    }));
    match r {
        Ok(x) => x,
        Err(_) => None,
    }
}

fn names(rules: &[usize]) -> String {
    rules.iter().map(|&i| POOL[i].name).collect::<Vec<_>>().join(", ")
}

fn fixed() -> (bool, String) {
    let goal = "P.v == true && Q.v == true";
    for strategy in [SearchStrategy::DepthFirst, SearchStrategy::BreadthFirst, SearchStrategy::Iterative] {
        if let Some(d) = ask(&[0], &[("A", true)], goal, strategy.clone()) {
            return (
                true,
                format!("rules [p_from_a: A.v == true => P.v = true]; facts {{A.v: true}}; strategy {:?}; GRL query goal `{}` reported NOT provable but {}", strategy, goal, d),
            );
        }
    }
    (false, "rule p_from_a, facts {A.v: true}, GRL goal `P.v == true && Q.v == true`, three strategies: not provable and facts unchanged".to_string())
}

fn search() -> (bool, String) {
    let n = POOL.len();
    let mut sets: Vec<Vec<usize>> = vec![vec![]];
    for a in 0..n {
        sets.push(vec![a]);
        for b in a + 1..n {
            sets.push(vec![a, b]);
            for c in b + 1..n {
                sets.push(vec![a, b, c]);
            }
        }
    }
    let atoms = ["P.v == true", "Q.v == true", "G.v == true"];
    let mut goals: Vec<String> = Vec::new();
    for i in 0..3 {
        for j in 0..3 {
            if i == j {
                continue;
            }
            goals.push(format!("{} && {}", atoms[i], atoms[j]));
            for k in 0..3 {
                if k != i && k != j {
                    goals.push(format!("{} && {} && {}", atoms[i], atoms[j], atoms[k]));
                }
            }
        }
    }
    let starts: [&[(&str, bool)]; 2] = [&[("A", true)], &[("A", true), ("B", true)]];
    let mut asked = 0usize;
    for rules in &sets {
        for start in starts.iter() {
            for goal in &goals {
                for strategy in [SearchStrategy::DepthFirst, SearchStrategy::BreadthFirst, SearchStrategy::Iterative] {
                    asked += 1;
                    if let Some(d) = ask(rules, start, goal, strategy.clone()) {
                        return (
                            true,
                            format!("rules [{}]; facts {:?}; strategy {:?}; GRL query goal `{}` reported NOT provable but {}", names(rules), start, strategy, goal, d),
                        );
                    }
                }
            }
        }
    }
    (false, format!("{} GRL conjunction queries over {} rule sets: every not-provable answer left the facts and the frame stack as they were", asked, sets.len()))
}

pub fn witnesses() -> Vec<crate::W> {
    vec![
        ("c10_grl_conjunction_keeps_first_operand_facts", fixed as fn() -> (bool, String)),
        ("c10_grl_conjunction_search", search as fn() -> (bool, String)),
    ]
}
