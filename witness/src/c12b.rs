//! C12, second part: bounded witness searches for the units window_manager, windowed_stream, window_aggregates and
//! stream_alpha_clock.  Each search compares the REAL crate with a reference computed from the property statement over small
//! event sequences in every arrival order (in order, reversed, shuffled / late events).
use rust_rule_engine::rete::stream_alpha_node::{StreamAlphaNode, WindowSpec};
use rust_rule_engine::streaming::event::StreamEvent;
use rust_rule_engine::streaming::operators::{WindowConfig, WindowedStream};
use rust_rule_engine::streaming::window::{TimeWindow, WindowManager, WindowType};
use rust_rule_engine::types::Value;
use std::collections::HashMap;
use std::time::{Duration, SystemTime, UNIX_EPOCH};

/// event number `id` (kept in the data so that a stored event can be recognised) with timestamp ts
fn ev(id: usize, ts: u64) -> StreamEvent {
    let mut d = HashMap::new();
    d.insert("id".to_string(), Value::Integer(id as i64));
    StreamEvent::with_timestamp("E", d, "w", ts)
}
fn id_of(e: &StreamEvent) -> usize {
    match e.data.get("id") {
        Some(Value::Integer(i)) => *i as usize,
        _ => usize::MAX,
    }
}

/// all sequences over `dom` of length 1..=maxlen, then every permutation of `perm_of`, then `nrand` pseudo-random
/// sequences of length `randlen` (fixed LCG): in-order, reversed and shuffled arrival orders are all among them
fn sequences(dom: &[u64], maxlen: usize, perm_of: &[u64], nrand: usize, randlen: usize) -> Vec<Vec<u64>> {
    let mut out: Vec<Vec<u64>> = Vec::new();
    let mut stack: Vec<Vec<u64>> = vec![vec![]];
    while let Some(s) = stack.pop() {
        if !s.is_empty() {
            out.push(s.clone());
        }
        if s.len() < maxlen {
            for &t in dom {
                let mut n = s.clone();
                n.push(t);
                stack.push(n);
            }
        }
    }
    // permutations (Heap's algorithm)
    let mut a: Vec<u64> = perm_of.to_vec();
    let n = a.len();
    let mut c = vec![0usize; n];
    out.push(a.clone());
    let mut i = 0;
    while i < n {
        if c[i] < i {
            if i % 2 == 0 { a.swap(0, i); } else { a.swap(c[i], i); }
            out.push(a.clone());
            c[i] += 1;
            i = 0;
        } else {
            c[i] = 0;
            i += 1;
        }
    }
    let mut x: u64 = 0x2545_F491_4F6C_DD1D;
    for _ in 0..nrand {
        let mut s = Vec::new();
        for _ in 0..randlen {
            x = x.wrapping_mul(6364136223846793005).wrapping_add(1442695040888963407);
            s.push(dom[((x >> 33) as usize) % dom.len()]);
        }
        out.push(s);
    }
    out
}

// ------------------------------------------------------------------------------------------------
// WindowManager (unit window_manager)
// ------------------------------------------------------------------------------------------------
#[derive(Clone, Debug, PartialEq)]
struct RefWin { start: u64, end: u64, ids: Vec<usize> }

/// reference step: placement into the unique window whose span contains t (else a new aligned window at the end), windows
/// expired at t dropped, the cap removes from the front, ascending by start
fn ref_process(ws: &mut Vec<RefWin>, id: usize, t: u64, w: u64, cap: usize, maxw: usize) -> (u64, bool) {
    let s = (t / w) * w;
    let mut placed = false;
    for x in ws.iter_mut() {
        if x.start <= t && t < x.end {
            x.ids.push(id);
            while x.ids.len() > cap { x.ids.remove(0); }
            placed = true;
            break;
        }
    }
    if !placed {
        let mut x = RefWin { start: s, end: s + w, ids: vec![id] };
        while x.ids.len() > cap { x.ids.remove(0); }
        ws.push(x);
    }
    ws.retain(|x| x.end > t);
    while ws.len() > maxw { ws.remove(0); }
    ws.sort_by_key(|x| x.start);
    (s, ws.iter().any(|x| x.start == s))
}

fn c12_manager_search() -> (bool, String) {
    let dom: Vec<u64> = (0..8).collect();
    let (maxlen, nrand) = (crate::bound(4, 5), crate::bound(300, 3000));
    let seqs = sequences(&dom, maxlen, &[0, 1, 2, 3, 4, 5, 6], nrand, 12);
    let mut tried = 0u64;
    for &w in &[1u64, 2, 3, 5] {
        for &cap in &[1usize, 2, 100] {
            for &maxw in &[1usize, 2, 3, 100] {
                for s in &seqs {
                    tried += 1;
                    let mut m = WindowManager::new(WindowType::Tumbling, Duration::from_millis(w), cap, maxw);
                    let mut r: Vec<RefWin> = Vec::new();
                    for (id, &t) in s.iter().enumerate() {
                        m.process_event(ev(id, t));
                        let (astart, _) = ref_process(&mut r, id, t, w, cap, maxw);
                        let got: Vec<RefWin> = m.active_windows().iter().map(|x| RefWin { start: x.start_time, end: x.end_time, ids: x.events().iter().map(id_of).collect() }).collect();
                        let ctx = || format!("tumbling w={}ms cap={} max_windows={} events(ts)={:?} after event #{} (ts={}): windows={:?}", w, cap, maxw, s, id, t, got);
                        if got != r {
                            return (true, format!("{} expected={:?}", ctx(), r));
                        }
                        // statement: every window is the aligned interval, holds only events of its span; starts distinct
                        for x in &got {
                            if x.start % w != 0 || x.end != x.start + w || x.ids.iter().any(|&i| s[i] < x.start || s[i] >= x.end) {
                                return (true, format!("{}: window [{},{}) is not aligned or holds a foreign event", ctx(), x.start, x.end));
                            }
                        }
                        // statement: the event is in exactly one window, the aligned interval containing its timestamp (cap >= 1, max_windows >= 1)
                        let holders: Vec<&RefWin> = got.iter().filter(|x| x.ids.contains(&id)).collect();
                        if holders.len() != 1 || holders[0].start != astart {
                            return (true, format!("{}: event #{} is held by {} windows (expected exactly one, [{},{}))", ctx(), id, holders.len(), astart, astart + w));
                        }
                        let total: usize = got.iter().map(|x| x.ids.len()).sum();
                        if m.total_event_count() != total || m.latest_window().map(|x| x.start_time) != got.iter().map(|x| x.start).max() {
                            return (true, format!("{}: total_event_count={} latest={:?}", ctx(), m.total_event_count(), m.latest_window().map(|x| x.start_time)));
                        }
                    }
                }
            }
        }
    }
    (false, format!("{} (sequence, width, cap, max_windows) combinations, every prefix compared (every sequence of <= {} timestamps over 0..8, the permutations of 0..7, {} fixed-seed sequences of 12)", tried, maxlen, nrand))
}

// ------------------------------------------------------------------------------------------------
// WindowedStream::new, tumbling (unit windowed_stream)
// ------------------------------------------------------------------------------------------------
fn c12_windowed_stream_search() -> (bool, String) {
    let dom: Vec<u64> = (0..8).collect();
    let (maxlen, nrand) = (crate::bound(4, 6), crate::bound(300, 3000));
    let seqs = sequences(&dom, maxlen, &[0, 1, 2, 3, 4, 5, 6], nrand, 12);
    let mut tried = 0u64;
    for &w in &[1u64, 2, 3, 5] {
        for &cap in &[1usize, 2, 10000] {
            for s in &seqs {
                tried += 1;
                let events: Vec<StreamEvent> = s.iter().enumerate().map(|(i, &t)| ev(i, t)).collect();
                let ws = WindowedStream::new(events, WindowConfig::tumbling(Duration::from_millis(w)).with_max_events(cap));
                let mut got: Vec<RefWin> = ws.windows().iter().map(|x| RefWin { start: x.start_time, end: x.end_time, ids: x.events().iter().map(id_of).collect() }).collect();
                got.sort_by_key(|x| x.start);
                // reference from the statement: one window per aligned interval that contains an event, holding exactly the
                // events of its span in input order (oldest first beyond the cap dropped)
                let mut exp: Vec<RefWin> = Vec::new();
                for (i, &t) in s.iter().enumerate() {
                    let st = (t / w) * w;
                    match exp.iter_mut().find(|x| x.start == st) {
                        Some(x) => x.ids.push(i),
                        None => exp.push(RefWin { start: st, end: st + w, ids: vec![i] }),
                    }
                }
                for x in exp.iter_mut() { while x.ids.len() > cap { x.ids.remove(0); } }
                exp.sort_by_key(|x| x.start);
                if got != exp {
                    return (true, format!("WindowedStream tumbling w={}ms max_events={} events(ts)={:?}: windows={:?} expected={:?}", w, cap, s, got, exp));
                }
            }
        }
    }
    (false, format!("{} (sequence, width, cap) combinations (every sequence of <= {} timestamps over 0..8, the permutations of 0..7, {} fixed-seed sequences of 12)", tried, maxlen, nrand))
}

/// helper for c12_sliding_1ms_terminates: does the call only when asked to through the environment (it never returns on the
/// unfixed code and allocates a window per iteration)
fn c12_sliding_1ms_child() -> (bool, String) {
    if std::env::var("C12B_SLIDING_CHILD").is_err() {
        return (false, "helper of c12_sliding_1ms_terminates (does nothing on its own)".into());
    }
    let ws = WindowedStream::new(vec![ev(0, 5)], WindowConfig::sliding(Duration::from_millis(1)));
    (false, format!("returned with {} windows", ws.windows().len()))
}

/// fixed history (b6bf80f): WindowedStream::new with a 1 ms SLIDING window stepped by window_ms / 2 == 0 and never returned.
/// Runs the call in a child process of this binary and kills it after 400 ms.
fn c12_sliding_1ms_terminates() -> (bool, String) {
    let exe = match std::env::current_exe() { Ok(e) => e, Err(e) => return (false, format!("cannot find own executable: {e}")) };
    let mut child = match std::process::Command::new(exe).arg("c12_sliding_1ms_child").env("C12B_SLIDING_CHILD", "1")
        .stdout(std::process::Stdio::null()).stderr(std::process::Stdio::null()).spawn() {
        Ok(c) => c,
        Err(e) => return (false, format!("cannot spawn child: {e}")),
    };
    for _ in 0..40 {
        std::thread::sleep(Duration::from_millis(10));
        if let Ok(Some(st)) = child.try_wait() {
            return (false, format!("WindowedStream::new([ts=5], sliding 1 ms) returned (child exit {:?})", st.code()));
        }
    }
    let _ = child.kill();
    let _ = child.wait();
    (true, "WindowedStream::new(vec![event ts=5], WindowConfig::sliding(1 ms)) did not return within 400 ms (step window_ms/2 == 0)".into())
}

// ------------------------------------------------------------------------------------------------
// aggregates (unit window_aggregates)
// ------------------------------------------------------------------------------------------------
fn num_of(v: &Option<Value>) -> Option<f64> {
    match v {
        Some(Value::Number(n)) => Some(*n),
        Some(Value::Integer(i)) => Some(*i as f64),
        _ => None,
    }
}
fn bits(o: Option<f64>) -> Option<u64> { o.map(|x| x.to_bits()) }

/// get_numeric is the projection Number(n) -> n, Integer(i) -> i as f64, anything else / missing -> None
fn c12_get_numeric_projection() -> (bool, String) {
    let vals: Vec<Option<Value>> = vec![
        None, Some(Value::Number(1.5)), Some(Value::Number(-0.0)), Some(Value::Number(f64::NAN)), Some(Value::Number(f64::INFINITY)),
        Some(Value::Integer(0)), Some(Value::Integer(-7)), Some(Value::Integer(i64::MAX)), Some(Value::Integer(i64::MIN)),
        Some(Value::String("3".into())), Some(Value::Boolean(true)), Some(Value::Null), Some(Value::Array(vec![Value::Number(1.0)])),
        Some(Value::Object(HashMap::new())), Some(Value::Expression("1+1".into())),
    ];
    for v in &vals {
        let mut d = HashMap::new();
        if let Some(x) = v { d.insert("v".to_string(), x.clone()); }
        d.insert("other".to_string(), Value::Number(9.0));
        let e = StreamEvent::with_timestamp("E", d, "w", 1);
        if bits(e.get_numeric("v")) != bits(num_of(v)) || e.get_numeric("absent").is_some() {
            return (true, format!("get_numeric on {:?}: {:?}, projection {:?}", v, e.get_numeric("v"), num_of(v)));
        }
    }
    (false, format!("{} value kinds", vals.len()))
}

/// sum / average / min / max / count / latest_timestamp / events_by_type / events_in_range equal the same fold over exactly
/// the stored events (numeric, non-numeric and missing fields; NaN, -0.0, infinities; every order; cap eviction)
fn c12_aggregates_search() -> (bool, String) {
    let vals: Vec<Option<Value>> = vec![
        None, Some(Value::Number(1.5)), Some(Value::Number(-2.25)), Some(Value::Number(-0.0)), Some(Value::Number(0.0)), Some(Value::Number(f64::NAN)),
        Some(Value::Number(f64::INFINITY)), Some(Value::Integer(3)), Some(Value::Integer(-4)), Some(Value::String("7".into())), Some(Value::Null),
    ];
    let idx: Vec<u64> = (0..vals.len() as u64).collect();
    let (maxlen, nrand) = (crate::bound(3, 5), crate::bound(400, 4000));
    let seqs = sequences(&idx, maxlen, &[1, 2, 3, 5, 7, 9, 0], nrand, 12);
    let mut tried = 0u64;
    for &cap in &[1usize, 3, 100] {
        for s in &seqs {
            tried += 1;
            let mut w = TimeWindow::new(WindowType::Tumbling, Duration::from_millis(1000), 0, cap);
            let mut stored: Vec<(usize, u64, Option<Value>, &str)> = Vec::new(); // what the window must hold: (id, ts, value, type)
            for (i, &k) in s.iter().enumerate() {
                let v = vals[k as usize].clone();
                let ts = (k * 37 + i as u64 * 11) % 100; // out-of-order timestamps inside the span
                let ty = if k % 2 == 0 { "A" } else { "B" };
                let mut d = HashMap::new();
                d.insert("id".to_string(), Value::Integer(i as i64));
                if let Some(x) = &v { d.insert("v".to_string(), x.clone()); }
                w.add_event(StreamEvent::with_timestamp(ty, d, "w", ts));
                stored.push((i, ts, v, ty));
                while stored.len() > cap { stored.remove(0); }
            }
            let ids: Vec<usize> = w.events().iter().map(id_of).collect();
            let nums: Vec<f64> = stored.iter().filter_map(|x| num_of(&x.2)).collect();
            let e_sum: f64 = nums.iter().sum();
            let e_avg = if nums.is_empty() { None } else { Some(nums.iter().sum::<f64>() / nums.len() as f64) };
            let e_min = nums.iter().fold(None, |a: Option<f64>, x| match a { None => Some(*x), Some(m) => Some(m.min(*x)) });
            let e_max = nums.iter().fold(None, |a: Option<f64>, x| match a { None => Some(*x), Some(m) => Some(m.max(*x)) });
            let e_latest = stored.iter().map(|x| x.1).max();
            let e_a: Vec<usize> = stored.iter().filter(|x| x.3 == "A").map(|x| x.0).collect();
            let e_rng: Vec<usize> = stored.iter().filter(|x| x.1 >= 20 && x.1 < 60).map(|x| x.0).collect();
            let ok = ids == stored.iter().map(|x| x.0).collect::<Vec<_>>()
                && w.count() == stored.len()
                && w.sum("v").to_bits() == e_sum.to_bits()
                && bits(w.average("v")) == bits(e_avg)
                && bits(w.min("v")) == bits(e_min)
                && bits(w.max("v")) == bits(e_max)
                && w.latest_timestamp() == e_latest
                && w.events_by_type("A").iter().map(|e| id_of(e)).collect::<Vec<_>>() == e_a
                && w.events_in_range(20, 60).iter().map(|e| id_of(e)).collect::<Vec<_>>() == e_rng;
            if !ok {
                return (true, format!("cap={} values={:?}: stored ids={:?} count={} sum={:?} avg={:?} min={:?} max={:?} latest={:?}; expected ids={:?} sum={:?} avg={:?} min={:?} max={:?} latest={:?}",
                    cap, s.iter().map(|&k| vals[k as usize].clone()).collect::<Vec<_>>(), ids, w.count(), w.sum("v"), w.average("v"), w.min("v"), w.max("v"), w.latest_timestamp(),
                    stored.iter().map(|x| x.0).collect::<Vec<_>>(), e_sum, e_avg, e_min, e_max, e_latest));
            }
        }
    }
    (false, format!("{} (sequence, cap) combinations (every sequence of <= {} out of {} values, the permutations of 7 of them, {} fixed-seed sequences of 12)", tried, maxlen, vals.len(), nrand))
}

// ------------------------------------------------------------------------------------------------
// StreamAlphaNode under the real wall clock (unit stream_alpha_clock)
// ------------------------------------------------------------------------------------------------
fn now_ms() -> u64 { SystemTime::now().duration_since(UNIX_EPOCH).unwrap().as_millis() as u64 }
fn sev(ts: u64) -> StreamEvent { StreamEvent::with_timestamp("E", HashMap::new(), "s", ts) }

/// fixed history (4fed35d): sliding 400 ms window: a fresh event, then a late (but in-window) event, then after 250 ms a third
/// event.  The late event is then older than the window but sat behind the fresher front, where front-only eviction kept it.
fn c12_alpha_sliding_late_event_retained() -> (bool, String) {
    let mut n = StreamAlphaNode::new("s", None, Some(WindowSpec { duration: Duration::from_millis(400), window_type: WindowType::Sliding }));
    let t0 = now_ms();
    let a = n.process_event(&sev(t0));
    let b = n.process_event(&sev(t0 - 300));
    std::thread::sleep(Duration::from_millis(250));
    let t1 = now_ms();
    let c = n.process_event(&sev(t1));
    let t2 = now_ms();
    let kept: Vec<u64> = n.get_events().iter().map(|e| e.metadata.timestamp).collect();
    // every clock value the node can have read during the third call lies in [t1, t2]: the cutoff was at least t1 - 400
    let cutoff_min = t1 - 400;
    let bad = kept.iter().any(|t| *t < cutoff_min);
    (bad, format!("sliding 400 ms, process ts=t0, t0-300, sleep 250 ms, ts=t0+{}: accepted={:?} retained(ts-t0)={:?} clock-t0 in [{},{}] so cutoff-t0 >= {}", t1 - t0, (a, b, c),
        kept.iter().map(|t| *t as i64 - t0 as i64).collect::<Vec<_>>(), t1 - t0, t2 - t0, cutoff_min as i64 - t0 as i64))
}

/// acceptance relative to the clock value read: within the duration before now accepted, older or in the future rejected and not stored
fn c12_alpha_acceptance() -> (bool, String) {
    for wt in [WindowType::Sliding, WindowType::Tumbling] {
        let dur = 60_000u64;
        let mut n = StreamAlphaNode::new("s", None, Some(WindowSpec { duration: Duration::from_millis(dur), window_type: wt.clone() }));
        let t0 = now_ms();
        let start = if wt == WindowType::Tumbling { (t0 / dur) * dur } else { t0 - dur };
        // far from every boundary the clock can cross during the test (the test takes well under 5 s)
        let inside = if wt == WindowType::Tumbling { start + (t0 - start) / 2 } else { t0 - dur / 2 };
        let cases = [(inside, true), (start.saturating_sub(5_000), false), (t0 + dur + 5_000, false), (t0.saturating_sub(3 * dur), false)];
        if wt == WindowType::Tumbling && (t0 - start > dur - 5_000) { continue; } // too close to the end of the aligned interval: skip
        let mut expect_len = 0;
        for (ts, exp) in cases {
            let got = n.process_event(&sev(ts));
            if exp { expect_len += 1; }
            if got != exp || n.event_count() != expect_len || n.process_event(&StreamEvent::with_timestamp("E", HashMap::new(), "other", inside)) {
                return (true, format!("{:?} window {} ms, clock about {}: event ts-now={} accepted={} expected={} stored={} expected={}", wt, dur, t0, ts as i64 - t0 as i64, got, exp, n.event_count(), expect_len));
            }
        }
    }
    (false, "sliding and tumbling 60 s windows, 4 timestamps each, foreign stream rejected".into())
}

pub fn witnesses() -> Vec<crate::W> {
    vec![
        ("c12_manager_search", c12_manager_search),
        ("c12_windowed_stream_search", c12_windowed_stream_search),
        ("c12_get_numeric_projection", c12_get_numeric_projection),
        ("c12_aggregates_search", c12_aggregates_search),
        ("c12_alpha_sliding_late_event_retained", c12_alpha_sliding_late_event_retained),
        ("c12_alpha_acceptance", c12_alpha_acceptance),
        ("c12_sliding_1ms_child", c12_sliding_1ms_child),
        ("c12_sliding_1ms_terminates", c12_sliding_1ms_terminates),
    ]
}
