//! C01 witnesses: "forward chaining runs a rule's actions iff its condition is true ... each assignment stores the value its
//! right-hand expression has on the facts at that moment".  Wire into main.rs with `mod c01;` + `all.extend(c01::witnesses());`.
//!
//! All references below are written from the property statement: a missing field reads as null; a right-hand side that names
//! another field is read from the facts; ==/!= are (structural) equality with null == null; the ordering operators compare
//! numerically after numeric coercion and are false when a side is not numeric; contains/startsWith/endsWith are the string
//! predicates and false on non-strings; `in` is membership in the right-hand array; && || ! are the boolean connectives;
//! arithmetic has the usual precedence (* / % before + -) and is left-associative, division by zero is an error.
//! Inputs on which the statement does not fix the answer are SKIPPED, never reported: equality between numerically equal values
//! of different representation (Integer 1 / Number 1.0 / String "1"), String("null") against Null, modulo by zero, regex
//! metacharacters under `matches`, right-hand fields that are missing, conditions whose arithmetic fails.
use rust_rule_engine::expression::evaluate_expression;
use rust_rule_engine::{ActionType, Condition, ConditionGroup, EngineConfig, Facts, KnowledgeBase, Operator, Rule, RustRuleEngine, Value};
use std::collections::HashMap;
use std::sync::{Arc, Mutex};

// ------------------------------------------------------------------------------------------------------------------------
// watchdog: run `f` in a thread; `progress` names the input being processed, for the report if the watchdog expires
// ------------------------------------------------------------------------------------------------------------------------
fn guarded(secs: u64, f: fn(&Arc<Mutex<String>>) -> (bool, String)) -> (bool, String) {
    let progress = Arc::new(Mutex::new(String::new()));
    let p2 = progress.clone();
    let (tx, rx) = std::sync::mpsc::channel();
    std::thread::spawn(move || {
        let r = std::panic::catch_unwind(std::panic::AssertUnwindSafe(|| f(&p2)));
        let _ = tx.send(r);
    });
    match rx.recv_timeout(std::time::Duration::from_secs(secs)) {
        Ok(Ok(r)) => r,
        Ok(Err(_)) => (true, format!("panicked while processing: {}", progress.lock().map(|s| s.clone()).unwrap_or_default())),
        Err(_) => (true, format!("did not return within {} s while processing: {}", secs, progress.lock().map(|s| s.clone()).unwrap_or_default())),
    }
}

// ------------------------------------------------------------------------------------------------------------------------
// reference: operator semantics
// ------------------------------------------------------------------------------------------------------------------------
fn num(v: &Value) -> Option<f64> {
    match v {
        Value::Integer(i) => Some(*i as f64),
        Value::Number(n) => Some(*n),
        Value::String(s) => s.parse::<f64>().ok(),
        _ => None,
    }
}

/// structural equality (floats by IEEE ==)
fn same(a: &Value, b: &Value) -> bool {
    match (a, b) {
        (Value::String(x), Value::String(y)) => x.as_bytes() == y.as_bytes(),
        (Value::Number(x), Value::Number(y)) => x == y,
        (Value::Integer(x), Value::Integer(y)) => x == y,
        (Value::Boolean(x), Value::Boolean(y)) => x == y,
        (Value::Null, Value::Null) => true,
        (Value::Array(x), Value::Array(y)) => x.len() == y.len() && x.iter().zip(y.iter()).all(|(p, q)| same(p, q)),
        _ => false,
    }
}

fn tag(v: &Value) -> u8 {
    match v {
        Value::String(_) => 0,
        Value::Number(_) => 1,
        Value::Integer(_) => 2,
        Value::Boolean(_) => 3,
        Value::Array(_) => 4,
        Value::Object(_) => 5,
        Value::Null => 6,
        Value::Expression(_) => 7,
    }
}

/// the statement does not say whether these two are "equal": same number in different representation, "null" text vs null
fn equality_unclear(a: &Value, b: &Value) -> bool {
    match (a, b) {
        (Value::Array(x), Value::Array(y)) => x.len() == y.len() && x.iter().zip(y.iter()).any(|(p, q)| equality_unclear(p, q)),
        (Value::String(s), Value::Null) | (Value::Null, Value::String(s)) => s == "null",
        _ => {
            if tag(a) != tag(b) {
                if let (Some(x), Some(y)) = (num(a), num(b)) {
                    return x == y || (x.is_nan() && y.is_nan());
                }
            }
            false
        }
    }
}

fn str_contains(h: &str, n: &str) -> bool {
    let (h, n) = (h.as_bytes(), n.as_bytes());
    if n.len() > h.len() {
        return false;
    }
    (0..=h.len() - n.len()).any(|i| &h[i..i + n.len()] == n)
}
fn str_starts(h: &str, n: &str) -> bool {
    let (h, n) = (h.as_bytes(), n.as_bytes());
    n.len() <= h.len() && &h[..n.len()] == n
}
fn str_ends(h: &str, n: &str) -> bool {
    let (h, n) = (h.as_bytes(), n.as_bytes());
    n.len() <= h.len() && &h[h.len() - n.len()..] == n
}

const OPS: [(Operator, &str); 12] = [
    (Operator::Equal, "=="),
    (Operator::NotEqual, "!="),
    (Operator::GreaterThan, ">"),
    (Operator::GreaterThanOrEqual, ">="),
    (Operator::LessThan, "<"),
    (Operator::LessThanOrEqual, "<="),
    (Operator::Contains, "contains"),
    (Operator::NotContains, "not_contains"),
    (Operator::StartsWith, "startsWith"),
    (Operator::EndsWith, "endsWith"),
    (Operator::Matches, "matches"),
    (Operator::In, "in"),
];

/// Some(truth) where the statement fixes the answer, None where it does not
fn spec(op: &Operator, l: &Value, r: &Value) -> Option<bool> {
    let strs = |l: &Value, r: &Value| -> Option<(String, String)> {
        match (l, r) {
            (Value::String(a), Value::String(b)) => Some((a.clone(), b.clone())),
            _ => None,
        }
    };
    match op {
        Operator::Equal | Operator::NotEqual => {
            if equality_unclear(l, r) {
                return None;
            }
            let eq = same(l, r);
            Some(if *op == Operator::Equal { eq } else { !eq })
        }
        Operator::GreaterThan | Operator::GreaterThanOrEqual | Operator::LessThan | Operator::LessThanOrEqual => {
            match (num(l), num(r)) {
                (Some(a), Some(b)) => Some(match op {
                    Operator::GreaterThan => a > b,
                    Operator::GreaterThanOrEqual => a >= b,
                    Operator::LessThan => a < b,
                    _ => a <= b,
                }),
                _ => Some(false),
            }
        }
        Operator::Contains => Some(strs(l, r).map(|(a, b)| str_contains(&a, &b)).unwrap_or(false)),
        // `not contains` of a non-string is not fixed by the statement
        Operator::NotContains => strs(l, r).map(|(a, b)| !str_contains(&a, &b)),
        Operator::StartsWith => Some(strs(l, r).map(|(a, b)| str_starts(&a, &b)).unwrap_or(false)),
        Operator::EndsWith => Some(strs(l, r).map(|(a, b)| str_ends(&a, &b)).unwrap_or(false)),
        Operator::Matches => match strs(l, r) {
            None => Some(false),
            // a pattern without metacharacters matches exactly where it occurs
            Some((a, b)) => {
                if b.chars().all(|c| c.is_ascii_alphanumeric()) {
                    Some(str_contains(&a, &b))
                } else {
                    None
                }
            }
        },
        Operator::In => match r {
            Value::Array(items) => {
                if items.iter().any(|it| equality_unclear(l, it)) {
                    None
                } else {
                    Some(items.iter().any(|it| same(l, it)))
                }
            }
            _ => Some(false),
        },
    }
}

fn s(x: &str) -> Value {
    Value::String(x.to_string())
}
fn i(x: i64) -> Value {
    Value::Integer(x)
}
fn f(x: f64) -> Value {
    Value::Number(x)
}

/// (a) every operator on every ordered pair of a value pool
fn c01_operator_pairs() -> (bool, String) {
    let mut pool: Vec<Value> = vec![];
    for x in [-3i64, -1, 0, 1, 2, 10] {
        pool.push(i(x));
    }
    for x in [-0.0f64, 0.0, 1.0, 1.5, -1.5, 2.0, f64::NAN, f64::INFINITY, f64::NEG_INFINITY] {
        pool.push(f(x));
    }
    for x in ["", "a", "ab", "abc", "bc", "b", "ba", "abd", "null", "1", "2", "10", "1.5", "-1", "é", "aé", "éa"] {
        pool.push(s(x));
    }
    pool.push(Value::Boolean(true));
    pool.push(Value::Boolean(false));
    pool.push(Value::Null);
    pool.push(Value::Array(vec![]));
    pool.push(Value::Array(vec![i(1)]));
    pool.push(Value::Array(vec![i(1), i(2)]));
    pool.push(Value::Array(vec![i(2), i(1)]));
    pool.push(Value::Array(vec![s("a")]));
    pool.push(Value::Array(vec![i(10), s("ab"), Value::Boolean(true)]));
    pool.push(Value::Array(vec![Value::Null]));
    pool.push(Value::Array(vec![Value::Array(vec![i(1)])]));
    pool.push(Value::Array(vec![f(1.5), f(f64::NAN)]));
    pool.push(Value::Array(vec![s(""), s("abc"), f(-1.5)]));
    let mut tried = 0u64;
    let mut skipped = 0u64;
    for l in &pool {
        for r in &pool {
            for (op, name) in OPS.iter() {
                match spec(op, l, r) {
                    None => skipped += 1,
                    Some(want) => {
                        tried += 1;
                        let got = op.evaluate(l, r);
                        if got != want {
                            return (true, format!("Operator::{:?}.evaluate({:?}, {:?}) [`{}`] = {}, expected {}", op, l, r, name, got, want));
                        }
                    }
                }
            }
        }
    }
    (false, format!("{} (operator, left, right) triples over a pool of {} values ({} skipped as not fixed by the statement)", tried, pool.len(), skipped))
}

// ------------------------------------------------------------------------------------------------------------------------
// reference: arithmetic
// ------------------------------------------------------------------------------------------------------------------------
#[derive(Clone, Copy, Debug)]
struct Num {
    v: f64,
    int: bool, // written as an integer / integer-valued field
}

#[derive(Debug, Clone, Copy, PartialEq)]
enum Ar {
    Val(f64),
    Error,   // division by zero
    Unclear, // modulo by zero: not fixed by the statement
}

struct Flags {
    err: bool,
    unclear: bool,
}

fn apply(a: f64, op: char, b: f64, fl: &mut Flags) -> f64 {
    match op {
        '+' => a + b,
        '-' => a - b,
        '*' => a * b,
        '/' => {
            if b == 0.0 {
                fl.err = true;
                f64::NAN
            } else {
                a / b
            }
        }
        _ => {
            if b == 0.0 {
                fl.unclear = true;
                f64::NAN
            } else {
                a % b
            }
        }
    }
}

/// v0 op0 v1 op1 v2 ...: products/quotients/remainders first, left to right; then sums/differences, left to right
fn ref_arith(vals: &[f64], ops: &[char]) -> Ar {
    let mut fl = Flags { err: false, unclear: false };
    let mut terms: Vec<f64> = vec![];
    let mut addops: Vec<char> = vec![];
    let mut cur = vals[0];
    for (k, op) in ops.iter().enumerate() {
        if *op == '*' || *op == '/' || *op == '%' {
            cur = apply(cur, *op, vals[k + 1], &mut fl);
        } else {
            terms.push(cur);
            addops.push(*op);
            cur = vals[k + 1];
        }
    }
    terms.push(cur);
    let mut acc = terms[0];
    for (k, op) in addops.iter().enumerate() {
        acc = apply(acc, *op, terms[k + 1], &mut fl);
    }
    if fl.unclear {
        Ar::Unclear
    } else if fl.err {
        Ar::Error
    } else {
        Ar::Val(acc)
    }
}

fn render(names: &[&str], ops: &[char], spaces: bool) -> String {
    let mut out = names[0].to_string();
    for (k, op) in ops.iter().enumerate() {
        if spaces {
            out.push(' ');
            out.push(*op);
            out.push(' ');
        } else {
            out.push(*op);
        }
        out.push_str(names[k + 1]);
    }
    out
}

const AOPS: [char; 5] = ['+', '-', '*', '/', '%'];

fn arith_facts() -> (Facts, Vec<(&'static str, Num)>) {
    let facts = Facts::new();
    facts.set("a", i(7));
    facts.set("b", i(2));
    facts.set("c", i(-3));
    facts.set("z", i(0));
    facts.set("x", f(1.5));
    let mut n = HashMap::new();
    n.insert("p".to_string(), i(4));
    n.insert("q".to_string(), f(2.5));
    facts.set("N", Value::Object(n));
    let operands = vec![
        ("a", Num { v: 7.0, int: true }),
        ("c", Num { v: -3.0, int: true }),
        ("z", Num { v: 0.0, int: true }),
        ("x", Num { v: 1.5, int: false }),
        ("3", Num { v: 3.0, int: true }),
        ("b", Num { v: 2.0, int: true }),
        ("N.p", Num { v: 4.0, int: true }),
        ("N.q", Num { v: 2.5, int: false }),
        ("2.5", Num { v: 2.5, int: false }),
        ("10", Num { v: 10.0, int: true }),
    ];
    (facts, operands)
}

fn check_expr(facts: &Facts, text: &str, vals: &[Num], ops: &[char]) -> Option<String> {
    let want = ref_arith(&vals.iter().map(|n| n.v).collect::<Vec<_>>(), ops);
    let got = evaluate_expression(text, facts);
    match (want, got) {
        (Ar::Unclear, _) => None,
        (Ar::Error, Err(_)) => None,
        (Ar::Error, Ok(v)) => Some(format!("evaluate_expression({:?}) = {:?}, expected an error (division by zero)", text, v)),
        (Ar::Val(w), Err(e)) => Some(format!("evaluate_expression({:?}) = Err({}), expected {}", text, e, w)),
        (Ar::Val(w), Ok(v)) => {
            let g = match &v {
                Value::Integer(n) => Some(*n as f64),
                Value::Number(n) => Some(*n),
                _ => None,
            };
            let ok = match g {
                Some(g) => g == w || (g.is_nan() && w.is_nan()),
                None => false,
            };
            if !ok {
                return Some(format!("evaluate_expression({:?}) = {:?}, expected {}", text, v, w));
            }
            // integer operands and no division: integer arithmetic, the result is an integer
            if vals.iter().all(|n| n.int) && !ops.contains(&'/') && !matches!(v, Value::Integer(_)) {
                return Some(format!("evaluate_expression({:?}) = {:?}, expected Integer({})", text, v, w));
            }
            None
        }
    }
}

/// (b) all arithmetic expressions with <= 3 operators over a few integer / float fields and literals
fn c01_arith_expressions_inner(progress: &Arc<Mutex<String>>) -> (bool, String) {
    let (facts, operands) = arith_facts();
    let mut tried = 0u64;
    // 0..=2 operators over all operands (with and without blanks); 3 operators over the first five operands
    // (thorough tier: 0..=3 operators over all operands, 4 operators over the first five)
    let max_ops = crate::bound(3, 4);
    for nops in 0..=max_ops {
        let pool = if nops == max_ops { &operands[..5] } else { &operands[..] };
        let n = pool.len();
        let mut idx = vec![0usize; nops + 1];
        loop {
            let mut opi = vec![0usize; nops];
            loop {
                let names: Vec<&str> = idx.iter().map(|k| pool[*k].0).collect();
                let vals: Vec<Num> = idx.iter().map(|k| pool[*k].1).collect();
                let ops: Vec<char> = opi.iter().map(|k| AOPS[*k]).collect();
                for spaces in [true, false] {
                    if !spaces && nops == max_ops {
                        continue;
                    }
                    let text = render(&names, &ops, spaces);
                    *progress.lock().unwrap() = text.clone();
                    tried += 1;
                    if let Some(bad) = check_expr(&facts, &text, &vals, &ops) {
                        return (true, format!("facts a=7 b=2 c=-3 z=0 x=1.5 N={{p:4,q:2.5}}: {}", bad));
                    }
                }
                // next operator tuple
                let mut k = 0;
                while k < nops {
                    opi[k] += 1;
                    if opi[k] < AOPS.len() {
                        break;
                    }
                    opi[k] = 0;
                    k += 1;
                }
                if k == nops {
                    break;
                }
            }
            let mut k = 0;
            while k <= nops {
                idx[k] += 1;
                if idx[k] < n {
                    break;
                }
                idx[k] = 0;
                k += 1;
            }
            if k > nops {
                break;
            }
        }
    }
    (false, format!("{} expressions with <= {} operators from + - * / % over fields a=7 b=2 c=-3 z=0 x=1.5 N.p=4 N.q=2.5 and literals 3, 2.5, 10", tried, max_ops))
}
fn c01_arith_expressions() -> (bool, String) {
    guarded(crate::bound(60, 900) as u64, c01_arith_expressions_inner)
}

// ------------------------------------------------------------------------------------------------------------------------
// reference: the fact store (nested objects and flat keys; an absent path reads as null)
// ------------------------------------------------------------------------------------------------------------------------
#[derive(Clone)]
struct Store {
    top: HashMap<String, Value>,
}
impl Store {
    fn read_opt(&self, path: &str) -> Option<Value> {
        let parts: Vec<&str> = path.split('.').collect();
        let mut cur = self.top.get(parts[0]);
        for p in &parts[1..] {
            cur = match cur {
                Some(Value::Object(m)) => m.get(*p),
                _ => None,
            };
        }
        match cur {
            Some(v) => Some(v.clone()),
            None => self.top.get(path).cloned(), // a flat key that contains dots
        }
    }
    fn read(&self, path: &str) -> Value {
        self.read_opt(path).unwrap_or(Value::Null)
    }
    /// assignment: into the object when the path leads into one, else under the whole path as a flat key
    fn write(&mut self, path: &str, v: Value) {
        let parts: Vec<&str> = path.split('.').collect();
        if parts.len() == 1 {
            self.top.insert(path.to_string(), v);
            return;
        }
        fn walk(cur: &mut Value, rest: &[&str], v: Value) -> Result<(), Value> {
            match cur {
                Value::Object(m) => {
                    if rest.len() == 1 {
                        m.insert(rest[0].to_string(), v);
                        Ok(())
                    } else {
                        match m.get_mut(rest[0]) {
                            Some(next) => walk(next, &rest[1..], v),
                            None => Err(v),
                        }
                    }
                }
                _ => Err(v),
            }
        }
        let v = match self.top.get_mut(parts[0]) {
            Some(root) => match walk(root, &parts[1..], v) {
                Ok(()) => return,
                Err(v) => v,
            },
            None => v,
        };
        self.top.insert(path.to_string(), v);
    }
    fn to_facts(&self) -> Facts {
        let facts = Facts::new();
        let mut keys: Vec<&String> = self.top.keys().collect();
        keys.sort();
        for k in keys {
            facts.set(k, self.top[k].clone());
        }
        facts
    }
}
fn facts_read(facts: &Facts, path: &str) -> Value {
    facts.get_nested(path).or_else(|| facts.get(path)).unwrap_or(Value::Null)
}

fn obj(pairs: Vec<(&str, Value)>) -> Value {
    let mut m = HashMap::new();
    for (k, v) in pairs {
        m.insert(k.to_string(), v);
    }
    Value::Object(m)
}

fn main_store() -> Store {
    let mut top = HashMap::new();
    top.insert(
        "A".to_string(),
        obj(vec![
            ("x", i(3)),
            ("y", i(2)),
            ("n", i(-5)),
            ("f", f(2.5)),
            ("s", s("hello")),
            ("b", Value::Boolean(true)),
            ("e", s("")),
            ("arr", Value::Array(vec![i(1), i(2), s("a")])),
            ("in", obj(vec![("q", i(7)), ("t", s("deep"))])),
        ]),
    );
    top.insert("k".to_string(), i(3));
    top.insert("j".to_string(), i(8));
    top.insert("name".to_string(), s("hello"));
    top.insert("flag".to_string(), Value::Boolean(false));
    top.insert("pi".to_string(), f(2.5));
    top.insert("ver".to_string(), s("10")); // a numeric string: coerced by the ordering operators
    top.insert("F.x".to_string(), i(3)); // flat keys that contain a dot; there is no object F
    top.insert("F.s".to_string(), s("he"));
    Store { top }
}
const PRESENT: [&str; 18] = ["A.x", "A.y", "A.n", "A.f", "A.s", "A.b", "A.e", "A.arr", "A.in.q", "A.in.t", "k", "j", "name", "flag", "pi", "ver", "F.x", "F.s"];
const MISSING: [&str; 6] = ["A.zz", "M.x", "m", "A.in.zz", "A.x.y", "F.y"];
const STORE_DESC: &str = "facts A={x:3,y:2,n:-5,f:2.5,s:\"hello\",b:true,e:\"\",arr:[1,2,\"a\"],in:{q:7,t:\"deep\"}} k=3 j=8 name=\"hello\" flag=false pi=2.5 ver=\"10\" \"F.x\"=3 \"F.s\"=\"he\" (flat keys)";

struct Case {
    desc: String,
    cond: ConditionGroup,
    expect: bool,
}

/// all cases as rules r<i> (action: o<i> = 1) of one knowledge base, one pass over the rules; a rule's action must have run
/// (o<i> stored, callback called) iff the reference says its condition is true
fn run_cases(store: &Store, cases: Vec<Case>, progress: &Arc<Mutex<String>>) -> Option<String> {
    for chunk in cases.chunks(200) {
        *progress.lock().unwrap() = format!("batch starting with {}", chunk[0].desc);
        let kb = KnowledgeBase::new("c01");
        for (n, c) in chunk.iter().enumerate() {
            let rule = Rule::new(format!("r{}", n), c.cond.clone(), vec![ActionType::Set { field: format!("o{}", n), value: i(1) }]);
            if let Err(e) = kb.add_rule(rule) {
                return Some(format!("add_rule failed for {}: {}", c.desc, e));
            }
        }
        let mut engine = RustRuleEngine::with_config(kb, EngineConfig { max_cycles: 1, timeout: None, enable_stats: false, debug_mode: false });
        let facts = store.to_facts();
        let fired: Arc<Mutex<Vec<String>>> = Arc::new(Mutex::new(vec![]));
        let f2 = fired.clone();
        let res = engine.execute_with_callback(&facts, move |name, _| f2.lock().unwrap().push(name.to_string()));
        if let Err(e) = res {
            return Some(format!("execute returned Err({}) on a batch starting with {}", e, chunk[0].desc));
        }
        let fired = fired.lock().unwrap().clone();
        for (n, c) in chunk.iter().enumerate() {
            let ran = facts.get(&format!("o{}", n)) == Some(i(1));
            let called = fired.iter().any(|x| *x == format!("r{}", n));
            if ran != c.expect || called != c.expect {
                return Some(format!(
                    "{}; rule `when {} then o = 1`, one pass: action ran = {}, fired callback = {}, the condition is {} by the statement",
                    STORE_DESC, c.desc, ran, called, c.expect
                ));
            }
        }
        // the same rules through execute(): same verdicts
        let facts2 = store.to_facts();
        if let Err(e) = engine.execute(&facts2) {
            return Some(format!("execute returned Err({}) on a batch starting with {}", e, chunk[0].desc));
        }
        for (n, c) in chunk.iter().enumerate() {
            let ran = facts2.get(&format!("o{}", n)) == Some(i(1));
            if ran != c.expect {
                return Some(format!("{}; rule `when {} then o = 1`, one pass of execute(): action ran = {}, the condition is {} by the statement", STORE_DESC, c.desc, ran, c.expect));
            }
        }
    }
    None
}

fn show(v: &Value) -> String {
    match v {
        Value::String(x) => format!("{:?}", x),
        Value::Integer(x) => format!("{}", x),
        Value::Number(x) => format!("{:?}", x),
        Value::Boolean(x) => format!("{}", x),
        Value::Null => "null".to_string(),
        Value::Array(xs) => format!("[{}]", xs.iter().map(show).collect::<Vec<_>>().join(", ")),
        Value::Expression(e) => format!("{}", e),
        Value::Object(_) => "{..}".to_string(),
    }
}

/// (c1) `field op literal` over present, nested, flat-dotted and missing fields
fn c01_rules_field_vs_literal_inner(progress: &Arc<Mutex<String>>) -> (bool, String) {
    let store = main_store();
    let literals: Vec<Value> = vec![
        i(3), i(2), i(-5), i(0), i(7), i(8), f(2.5), f(-0.5),
        s("hello"), s("he"), s("lo"), s("ell"), s(""), s("HELLO"), s("deep"), s("xyz"), s("hello!"),
        Value::Boolean(true), Value::Boolean(false), Value::Null,
        Value::Array(vec![i(1), i(2), i(3)]), Value::Array(vec![s("hello"), s("a")]), Value::Array(vec![]),
        Value::Array(vec![i(7), s("he")]), Value::Array(vec![Value::Boolean(true)]), Value::Array(vec![Value::Null]),
    ];
    let mut cases = vec![];
    let mut skipped = 0;
    for field in PRESENT.iter().chain(MISSING.iter()) {
        let l = store.read(field);
        for lit in &literals {
            for (op, name) in OPS.iter() {
                match spec(op, &l, lit) {
                    None => skipped += 1,
                    Some(expect) => cases.push(Case {
                        desc: format!("{} {} {}", field, name, show(lit)),
                        cond: ConditionGroup::single(Condition::new(field.to_string(), op.clone(), lit.clone())),
                        expect,
                    }),
                }
            }
        }
    }
    let n = cases.len();
    match run_cases(&store, cases, progress) {
        Some(bad) => (true, bad),
        None => (false, format!("{} rules `field op literal` ({} fields incl. 6 absent ones, {} literals, 12 operators; {} skipped as not fixed by the statement)", n, PRESENT.len() + MISSING.len(), literals.len(), skipped)),
    }
}
fn c01_rules_field_vs_literal() -> (bool, String) {
    guarded(crate::bound(60, 900) as u64, c01_rules_field_vs_literal_inner)
}

/// (c2) `field op otherField`: the right-hand side names a field (as the parser stores it: an Expression; and the legacy form,
/// a String that names a fact) and arithmetic over fields on the right-hand side
fn c01_rules_field_vs_field_inner(progress: &Arc<Mutex<String>>) -> (bool, String) {
    let store = main_store();
    let mut cases = vec![];
    let mut skipped = 0;
    for field in PRESENT.iter().chain(MISSING.iter()) {
        let l = store.read(field);
        for other in PRESENT.iter() {
            let r = store.read(other);
            for (op, name) in OPS.iter() {
                match spec(op, &l, &r) {
                    None => skipped += 1,
                    Some(expect) => {
                        cases.push(Case {
                            desc: format!("{} {} {} [right-hand side stored as field reference]", field, name, other),
                            cond: ConditionGroup::single(Condition::new(field.to_string(), op.clone(), Value::Expression(other.to_string()))),
                            expect,
                        });
                        cases.push(Case {
                            desc: format!("{} {} {} [right-hand side stored as a string naming the field]", field, name, other),
                            cond: ConditionGroup::single(Condition::new(field.to_string(), op.clone(), s(other))),
                            expect,
                        });
                    }
                }
            }
        }
    }
    // arithmetic on the right-hand side: field op (f1 aop f2 [aop f3])
    let nums: [(&str, f64); 8] = [("A.x", 3.0), ("A.y", 2.0), ("A.n", -5.0), ("A.f", 2.5), ("k", 3.0), ("j", 8.0), ("A.in.q", 7.0), ("2", 2.0)];
    let cmp = &OPS[2..6];
    for field in ["A.x", "j", "A.f", "A.n", "A.zz", "A.s"] {
        let l = store.read(field);
        for a in &nums {
            for b in &nums {
                for c in [None, Some(&nums[1]), Some(&nums[7])] {
                    for o1 in AOPS {
                        for o2 in ['+', '*', '-'] {
                            let (names, vals, ops): (Vec<&str>, Vec<f64>, Vec<char>) = match c {
                                None => (vec![a.0, b.0], vec![a.1, b.1], vec![o1]),
                                Some(c) => (vec![a.0, b.0, c.0], vec![a.1, b.1, c.1], vec![o1, o2]),
                            };
                            if c.is_none() && o2 != '+' {
                                continue;
                            }
                            let r = match ref_arith(&vals, &ops) {
                                Ar::Val(v) => f(v),
                                _ => {
                                    skipped += 1;
                                    continue;
                                }
                            };
                            let text = render(&names, &ops, true);
                            for (op, name) in cmp.iter() {
                                if let Some(expect) = spec(op, &l, &r) {
                                    cases.push(Case {
                                        desc: format!("{} {} {}", field, name, text),
                                        cond: ConditionGroup::single(Condition::new(field.to_string(), op.clone(), Value::Expression(text.clone()))),
                                        expect,
                                    });
                                }
                            }
                        }
                    }
                }
            }
        }
    }
    let n = cases.len();
    match run_cases(&store, cases, progress) {
        Some(bad) => (true, bad),
        None => (false, format!("{} rules `field op otherField` / `field cmp arithmetic over fields` ({} skipped as not fixed by the statement)", n, skipped)),
    }
}
fn c01_rules_field_vs_field() -> (bool, String) {
    guarded(crate::bound(90, 900) as u64, c01_rules_field_vs_field_inner)
}

// ------------------------------------------------------------------------------------------------------------------------
// compound conditions
// ------------------------------------------------------------------------------------------------------------------------
#[derive(Clone, Debug)]
enum T {
    Leaf(usize),
    Not(Box<T>),
    And(Box<T>, Box<T>),
    Or(Box<T>, Box<T>),
}
struct LeafDef {
    text: &'static str,
    field: &'static str,
    op: Operator,
    value: Value,
}
fn truth(t: &T, leaves: &[bool]) -> bool {
    match t {
        T::Leaf(k) => leaves[*k],
        T::Not(x) => !truth(x, leaves),
        T::And(a, b) => truth(a, leaves) & truth(b, leaves),
        T::Or(a, b) => truth(a, leaves) | truth(b, leaves),
    }
}
fn group(t: &T, defs: &[LeafDef]) -> ConditionGroup {
    match t {
        T::Leaf(k) => ConditionGroup::single(Condition::new(defs[*k].field.to_string(), defs[*k].op.clone(), defs[*k].value.clone())),
        T::Not(x) => ConditionGroup::not(group(x, defs)),
        T::And(a, b) => ConditionGroup::and(group(a, defs), group(b, defs)),
        T::Or(a, b) => ConditionGroup::or(group(a, defs), group(b, defs)),
    }
}
/// fully parenthesised GRL text
fn grl_full(t: &T, defs: &[LeafDef]) -> String {
    match t {
        T::Leaf(k) => defs[*k].text.to_string(),
        T::Not(x) => format!("!({})", grl_full(x, defs)),
        T::And(a, b) => format!("({}) && ({})", grl_full(a, defs), grl_full(b, defs)),
        T::Or(a, b) => format!("({}) || ({})", grl_full(a, defs), grl_full(b, defs)),
    }
}
/// GRL text with only the parentheses the precedence ! > && > || requires
fn grl_min(t: &T, defs: &[LeafDef]) -> String {
    match t {
        T::Leaf(k) => defs[*k].text.to_string(),
        T::Not(x) => format!("!({})", grl_min(x, defs)),
        T::And(a, b) => {
            let p = |x: &T| match x {
                T::Or(..) => format!("({})", grl_min(x, defs)),
                _ => grl_min(x, defs),
            };
            format!("{} && {}", p(a), p(b))
        }
        T::Or(a, b) => format!("{} || {}", grl_min(a, defs), grl_min(b, defs)),
    }
}
fn grow(smaller: &[T], other: &[T]) -> Vec<T> {
    let mut out = vec![];
    for a in smaller {
        out.push(T::Not(Box::new(a.clone())));
        for b in other {
            out.push(T::And(Box::new(a.clone()), Box::new(b.clone())));
            out.push(T::Or(Box::new(a.clone()), Box::new(b.clone())));
            out.push(T::And(Box::new(b.clone()), Box::new(a.clone())));
            out.push(T::Or(Box::new(b.clone()), Box::new(a.clone())));
        }
    }
    out
}
fn leaf_defs() -> Vec<LeafDef> {
    vec![
        LeafDef { text: "A.x == 3", field: "A.x", op: Operator::Equal, value: i(3) },            // true
        LeafDef { text: "k > j", field: "k", op: Operator::GreaterThan, value: Value::Expression("j".into()) }, // false
        LeafDef { text: "A.zz == null", field: "A.zz", op: Operator::Equal, value: Value::Null }, // true: absent reads as null
        LeafDef { text: "A.s startsWith \"lo\"", field: "A.s", op: Operator::StartsWith, value: s("lo") }, // false
    ]
}

/// (c3) && || ! trees to depth 3 over a true and a false leaf, built with the constructors
fn c01_rules_compound_inner(progress: &Arc<Mutex<String>>) -> (bool, String) {
    let store = main_store();
    let defs = leaf_defs();
    let leaf_truth: Vec<bool> = defs.iter().map(|d| spec(&d.op, &store.read(d.field), &if let Value::Expression(e) = &d.value { store.read(e) } else { d.value.clone() }).unwrap()).collect();
    if leaf_truth != vec![true, false, true, false] {
        return (false, "internal: leaf truth values are not as intended".to_string());
    }
    let d0 = vec![T::Leaf(0), T::Leaf(1)];
    let mut d1 = d0.clone();
    d1.extend(grow(&d0, &d0));
    let mut d2 = d1.clone();
    d2.extend(grow(&d1, &d1));
    let mut trees = d2.clone();
    trees.extend(grow(&d2, &d0)); // depth 3: one side of depth <= 2, the other a leaf
    let step = crate::bound(12, 1); // every 12th depth-2 tree (thorough tier: every one)
    trees.extend(grow(&d2.iter().skip(d1.len()).step_by(step).cloned().collect::<Vec<_>>(), &d1)); // ... or of depth <= 1 (a sample)
    // the same shapes over the second pair of leaves, to depth 2
    let e0 = vec![T::Leaf(2), T::Leaf(3)];
    let mut e1 = e0.clone();
    e1.extend(grow(&e0, &e0));
    trees.extend(grow(&e1, &e1));
    // a depth-6 chain
    let mut deep = T::Leaf(1);
    for k in 0..6 {
        deep = if k % 2 == 0 { T::Not(Box::new(T::Or(Box::new(deep), Box::new(T::Leaf(3))))) } else { T::And(Box::new(T::Leaf(0)), Box::new(deep)) };
        trees.push(deep.clone());
    }
    let cases: Vec<Case> = trees.iter().map(|t| Case { desc: grl_full(t, &defs), cond: group(t, &defs), expect: truth(t, &leaf_truth) }).collect();
    let n = cases.len();
    match run_cases(&store, cases, progress) {
        Some(bad) => (true, bad),
        None => (false, format!("{} condition trees over && || ! (all to depth 2; depth 3 with one side a leaf, and a sample (1 in {} of the depth-2 trees) with one side of depth 1; a depth-6 chain) built with the constructors", n, step)),
    }
}
fn c01_rules_compound() -> (bool, String) {
    guarded(crate::bound(90, 900) as u64, c01_rules_compound_inner)
}

/// run GRL rules `rule "r<i>" { when <cond> then o<i> = 1; }` and compare which actions ran with `expect`
fn run_grl_cases(store: &Store, cases: &[(String, bool)], progress: &Arc<Mutex<String>>) -> Option<String> {
    for chunk in cases.chunks(100) {
        *progress.lock().unwrap() = format!("GRL batch starting with {}", chunk[0].0);
        let mut text = String::new();
        for (n, (cond, _)) in chunk.iter().enumerate() {
            text.push_str(&format!("rule \"r{}\" salience 0 {{\n when\n  {}\n then\n  o{} = 1;\n}}\n\n", n, cond, n));
        }
        let kb = KnowledgeBase::new("c01grl");
        match kb.add_rules_from_grl(&text) {
            Ok(k) if k == chunk.len() => {}
            Ok(k) => return Some(format!("GRL text with {} rules parsed into {} rules; first rule condition: {}", chunk.len(), k, chunk[0].0)),
            Err(e) => return Some(format!("GRL text did not parse ({}); batch starts with: {}", e, chunk[0].0)),
        }
        let mut engine = RustRuleEngine::with_config(kb, EngineConfig { max_cycles: 1, timeout: None, enable_stats: false, debug_mode: false });
        let facts = store.to_facts();
        if let Err(e) = engine.execute(&facts) {
            return Some(format!("execute returned Err({}) on a GRL batch starting with {}", e, chunk[0].0));
        }
        for (n, (cond, expect)) in chunk.iter().enumerate() {
            let ran = facts.get(&format!("o{}", n)) == Some(i(1));
            if ran != *expect {
                return Some(format!("{}; GRL rule `when {} then o = 1;`, one pass: action ran = {}, the condition is {} by the statement", STORE_DESC, cond, ran, expect));
            }
        }
    }
    None
}

/// (c4) the same trees written as GRL text (fully parenthesised, and relying on the precedence ! > && > ||) through the parser
fn c01_rules_compound_grl_inner(progress: &Arc<Mutex<String>>) -> (bool, String) {
    let store = main_store();
    let defs = leaf_defs();
    let leaf_truth = vec![true, false, true, false];
    let d0 = vec![T::Leaf(0), T::Leaf(1), T::Leaf(2), T::Leaf(3)];
    let p0 = vec![T::Leaf(0), T::Leaf(1)];
    let mut d1 = p0.clone();
    d1.extend(grow(&p0, &d0));
    let mut d2 = d1.clone();
    d2.extend(grow(&d1, &p0));
    let mut trees = d2.clone();
    let step = crate::bound(5, 1); // a fifth of the depth-2 trees (thorough tier: all of them), one level deeper
    trees.extend(grow(&d2[d1.len()..].iter().step_by(step).cloned().collect::<Vec<_>>(), &p0));
    let mut cases: Vec<(String, bool)> = vec![];
    for t in &trees {
        let want = truth(t, &leaf_truth);
        cases.push((grl_full(t, &defs), want));
        let m = grl_min(t, &defs);
        if m != cases.last().unwrap().0 {
            cases.push((m, want));
        }
    }
    let n = cases.len();
    match run_grl_cases(&store, &cases, progress) {
        Some(bad) => (true, bad),
        None => (false, format!("{} GRL `when` texts over && || ! and parentheses (to depth 3: {} depth-2 trees one level deeper), parsed by GRLParser and executed", n, if step == 1 { "all".to_string() } else { format!("1 in {} of the", step) })),
    }
}
fn c01_rules_compound_grl() -> (bool, String) {
    guarded(crate::bound(90, 900) as u64, c01_rules_compound_grl_inner)
}

// ------------------------------------------------------------------------------------------------------------------------
// arithmetic in conditions and assignments
// ------------------------------------------------------------------------------------------------------------------------
const CMPS: [(&str, Operator); 6] = [
    (">", Operator::GreaterThan),
    (">=", Operator::GreaterThanOrEqual),
    ("<", Operator::LessThan),
    ("<=", Operator::LessThanOrEqual),
    ("==", Operator::Equal),
    ("!=", Operator::NotEqual),
];

/// (c5) `f1 aop f2 [aop f3] cmp literal` (literals incl. negative ones), as GRL text and as the condition the parser builds for it
fn c01_rules_arith_condition_inner(progress: &Arc<Mutex<String>>) -> (bool, String) {
    let store = main_store();
    // (name, value, is integer)
    let first: [(&str, f64, bool); 4] = [("A.x", 3.0, true), ("A.n", -5.0, true), ("j", 8.0, true), ("A.f", 2.5, false)];
    let rest: [(&str, f64, bool); 5] = [("A.y", 2.0, true), ("A.n", -5.0, true), ("k", 3.0, true), ("A.f", 2.5, false), ("2", 2.0, true)];
    let rights: [(&str, f64, bool); 5] = [("7", 7.0, true), ("-5", -5.0, true), ("0", 0.0, true), ("1", 1.0, true), ("5.5", 5.5, false)];
    let mut grl: Vec<(String, bool)> = vec![];
    let mut cases: Vec<Case> = vec![];
    let mut skipped = 0u64;
    let mut count = 0u64;
    let grl_every = crate::bound(37, 2) as u64; // the GRL route for every 37th condition (thorough tier: every 2nd)
    for a in &first {
        for b in &rest {
            for c in [None, Some(&rest[0]), Some(&rest[4])] {
                for o1 in AOPS {
                    for o2 in AOPS {
                        if c.is_none() && o2 != '+' {
                            continue;
                        }
                        let (names, vals, ints, ops): (Vec<&str>, Vec<f64>, Vec<bool>, Vec<char>) = match c {
                            None => (vec![a.0, b.0], vec![a.1, b.1], vec![a.2, b.2], vec![o1]),
                            Some(c) => (vec![a.0, b.0, c.0], vec![a.1, b.1, c.1], vec![a.2, b.2, c.2], vec![o1, o2]),
                        };
                        let l = match ref_arith(&vals, &ops) {
                            Ar::Val(v) => v,
                            _ => {
                                skipped += 1;
                                continue; // a condition whose arithmetic fails: not fixed by the statement
                            }
                        };
                        let left = render(&names, &ops, true);
                        let tainted = ints.iter().any(|x| !x) || ops.contains(&'/');
                        for r in &rights {
                            for (cname, cop) in CMPS.iter() {
                                let expect = match cop {
                                    Operator::GreaterThan => l > r.1,
                                    Operator::GreaterThanOrEqual => l >= r.1,
                                    Operator::LessThan => l < r.1,
                                    Operator::LessThanOrEqual => l <= r.1,
                                    _ => {
                                        // equality between a float-typed and an integer-typed equal number: not fixed
                                        if l == r.1 && (tainted || !r.2) {
                                            skipped += 1;
                                            continue;
                                        }
                                        (l == r.1) == (*cop == Operator::Equal)
                                    }
                                };
                                count += 1;
                                let text = format!("{} {} {}", left, cname, r.0);
                                // the GRL route for a sample (every 37th), the parser's representation for all
                                if count % grl_every == 0 {
                                    grl.push((text.clone(), expect));
                                }
                                cases.push(Case { desc: text.clone(), cond: ConditionGroup::single(Condition::with_test(text, vec![])), expect });
                            }
                        }
                    }
                }
            }
        }
    }
    // the statement's own examples
    grl.push(("A.x + A.y * 2 > 6".to_string(), true)); // 3 + 2*2 = 7 (not (3+2)*2 = 10 > 6 either way, so also:)
    grl.push(("A.x + A.y * 2 > 7".to_string(), false));
    grl.push(("A.x + A.y * 2 == 7".to_string(), true));
    grl.push(("k - j == -5".to_string(), true));
    grl.push(("j - k - A.y == 3".to_string(), true)); // (8-3)-2, not 8-(3-2) = 7
    grl.push(("j - k - A.y == 7".to_string(), false));
    grl.push(("j / A.y / A.y == 2".to_string(), true)); // (8/2)/2, not 8/(2/2) = 8
    grl.push(("j % k * A.y == 4".to_string(), true)); // (8%3)*2, not 8%(3*2) = 2
    grl.push(("A.n + 10 >= 5 && k - j == -5".to_string(), true));
    grl.push(("A.n + 10 > 5 || k - j == -5".to_string(), true));
    grl.push(("!(k - j == -5)".to_string(), false));
    let n = cases.len();
    let g = grl.len();
    if let Some(bad) = run_cases(&store, cases, progress) {
        return (true, bad);
    }
    if let Some(bad) = run_grl_cases(&store, &grl, progress) {
        return (true, bad);
    }
    (false, format!("{} arithmetic conditions `f1 op f2 [op f3] cmp literal` as the parser represents them + {} of them (1 in {} + the statement's examples) as GRL text ({} skipped as not fixed by the statement)", n, g, grl_every, skipped))
}
fn c01_rules_arith_condition() -> (bool, String) {
    guarded(crate::bound(90, 900) as u64, c01_rules_arith_condition_inner)
}

/// (c6) assignments: `target = expression` stores the reference value of the expression on the facts at that moment; a rule whose
/// condition is false stores nothing; later assignments (same rule, later rule) see earlier ones
fn c01_rules_assignment_inner(progress: &Arc<Mutex<String>>) -> (bool, String) {
    let base = main_store();
    let nums: [(&str, bool); 9] = [("A.x", true), ("A.y", true), ("A.n", true), ("A.f", false), ("k", true), ("j", true), ("A.in.q", true), ("2", true), ("F.x", true)];
    let targets = ["A.z", "A.x", "t", "B.z", "A.in.w", "k", "F.x", "A.in.q"];
    let mut tried = 0u64;
    let mut skipped = 0u64;
    // expression text -> operands
    let mut exprs: Vec<(Vec<&str>, Vec<char>)> = vec![];
    for a in &nums {
        exprs.push((vec![a.0], vec![]));
        for b in &nums {
            for o1 in AOPS {
                exprs.push((vec![a.0, b.0], vec![o1]));
                for c in [&nums[1], &nums[7], &nums[3]] {
                    for o2 in AOPS {
                        exprs.push((vec![a.0, b.0, c.0], vec![o1, o2]));
                    }
                }
            }
        }
    }
    let value_of = |st: &Store, name: &str| -> Option<f64> {
        if let Ok(v) = name.parse::<f64>() {
            return Some(v);
        }
        num(&st.read(name))
    };
    for (ei, (names, ops)) in exprs.iter().enumerate() {
        let text = render(names, ops, true);
        // rule 1 (salience 10): when <true or false condition> then target = expr; second = target + 1
        // rule 2 (salience 5): when A.x >= 0 || A.x < 0 then third = target * 2       (sees rule 1's assignment)
        // quick tier: one target per expression (in rotation) and the false condition for every 5th expression;
        // thorough tier: every target and both conditions for every expression
        let one = [targets[ei % targets.len()]];
        let tgts: &[&str] = if crate::thorough() { &targets } else { &one };
        for &target in tgts {
        for cond_true in [true, false] {
            if !cond_true && ei % 5 != 0 && !crate::thorough() {
                continue;
            }
            *progress.lock().unwrap() = format!("{} = {}", target, text);
            let mut model = base.clone();
            let vals: Option<Vec<f64>> = names.iter().map(|n| value_of(&model, n)).collect();
            let v1 = match ref_arith(&vals.unwrap(), ops) {
                Ar::Val(v) => v,
                _ => {
                    skipped += 1;
                    continue; // failing right-hand side: execute returns an error; not fixed by the statement
                }
            };
            let cond1 = if cond_true {
                ConditionGroup::single(Condition::new("A.s".into(), Operator::Equal, s("hello")))
            } else {
                ConditionGroup::single(Condition::new("A.s".into(), Operator::Equal, s("bye")))
            };
            let kb = KnowledgeBase::new("c01set");
            // added in the opposite order of salience
            kb.add_rule(
                Rule::new(
                    "second".into(),
                    ConditionGroup::single(Condition::new("A.b".into(), Operator::Equal, Value::Boolean(true))),
                    vec![ActionType::Set { field: "third".into(), value: Value::Expression(format!("{} * 2", target)) }],
                )
                .with_salience(5),
            )
            .unwrap();
            kb.add_rule(
                Rule::new(
                    "first".into(),
                    cond1,
                    vec![
                        ActionType::Set { field: target.into(), value: Value::Expression(text.clone()) },
                        ActionType::Set { field: "second".into(), value: Value::Expression(format!("{} + 1", target)) },
                    ],
                )
                .with_salience(10),
            )
            .unwrap();
            let mut engine = RustRuleEngine::with_config(kb, EngineConfig { max_cycles: 1, timeout: None, enable_stats: false, debug_mode: false });
            let facts = model.to_facts();
            tried += 1;
            let before_target = model.read_opt(target);
            let res = engine.execute(&facts);
            // reference
            let mut want_second = None;
            if cond_true {
                model.write(target, f(v1));
                want_second = Some(v1 + 1.0);
            }
            let third_operand = num(&model.read(target));
            let want_third = third_operand.map(|t| t * 2.0);
            if want_third.is_none() {
                // target absent and rule 1 did not run: rule 2's right-hand side fails; not fixed by the statement
                if res.is_ok() && facts.get("third").is_some() {
                    return (true, format!("{}; rule2 `third = {} * 2` with {} absent stored {:?}", STORE_DESC, target, target, facts.get("third")));
                }
                continue;
            }
            if let Err(e) = res {
                return (true, format!("{}; rules first(salience 10): `{} = {}; second = {} + 1`, second(salience 5): `third = {} * 2`: execute returned Err({})", STORE_DESC, target, text, target, target, e));
            }
            let got_t = facts_read(&facts, target);
            let got_second = facts.get("second");
            let got_third = facts.get("third");
            let numeq = |g: Option<f64>, w: f64| g.map(|g| g == w || (g.is_nan() && w.is_nan())).unwrap_or(false);
            let describe = || {
                format!(
                    "{}; one pass over rules first (salience 10, condition {}): `{} = {}; second = {} + 1;` and second (salience 5, condition true): `third = {} * 2;`",
                    STORE_DESC, cond_true, target, text, target, target
                )
            };
            if cond_true {
                if !numeq(num(&got_t), v1) || matches!(got_t, Value::String(_)) {
                    return (true, format!("{}: {} reads {:?} afterwards, expected {}", describe(), target, got_t, v1));
                }
                if !numeq(got_second.as_ref().and_then(num), want_second.unwrap()) {
                    return (true, format!("{}: second = {:?}, expected {} (the value of {} at that moment plus 1)", describe(), got_second, want_second.unwrap(), target));
                }
            } else {
                let now = facts.get_nested(target).or_else(|| facts.get(target));
                let unchanged = match (&before_target, &now) {
                    (None, None) => true,
                    (Some(a), Some(b)) => same(a, b),
                    _ => false,
                };
                if !unchanged || got_second.is_some() {
                    return (true, format!("{}: the condition is false but {} = {:?} (before: {:?}), second = {:?}", describe(), target, now, before_target, got_second));
                }
            }
            if !numeq(got_third.as_ref().and_then(num), want_third.unwrap()) {
                return (true, format!("{}: third = {:?}, expected {}", describe(), got_third, want_third.unwrap()));
            }
        }
        }
    }
    // non-numeric assignments: literal and copied values keep their value
    let kb = KnowledgeBase::new("c01set2");
    kb.add_rule(Rule::new(
        "copy".into(),
        ConditionGroup::single(Condition::new("A.x".into(), Operator::Equal, i(3))),
        vec![
            ActionType::Set { field: "A.copy".into(), value: Value::Expression("A.s".into()) },
            ActionType::Set { field: "A.s".into(), value: s("changed") },
            ActionType::Set { field: "c2".into(), value: Value::Expression("A.s".into()) },
            ActionType::Set { field: "c3".into(), value: Value::Expression("A.arr".into()) },
            ActionType::Set { field: "A.b".into(), value: Value::Boolean(false) },
        ],
    ))
    .unwrap();
    let mut engine = RustRuleEngine::with_config(kb, EngineConfig { max_cycles: 1, timeout: None, enable_stats: false, debug_mode: false });
    let facts = base.to_facts();
    let res = engine.execute(&facts);
    let want = [
        ("A.copy", s("hello")),
        ("A.s", s("changed")),
        ("c2", s("changed")),
        ("c3", Value::Array(vec![i(1), i(2), s("a")])),
        ("A.b", Value::Boolean(false)),
    ];
    if res.is_err() {
        return (true, format!("{}; rule `A.copy = A.s; A.s = \"changed\"; c2 = A.s; c3 = A.arr; A.b = false`: execute returned {:?}", STORE_DESC, res.err()));
    }
    for (k, w) in want.iter() {
        let g = facts_read(&facts, k);
        if !same(&g, w) {
            return (true, format!("{}; rule `A.copy = A.s; A.s = \"changed\"; c2 = A.s; c3 = A.arr; A.b = false`: {} = {:?}, expected {:?}", STORE_DESC, k, g, w));
        }
    }
    // the statement's example through the parser
    let kb = KnowledgeBase::new("c01set3");
    let grl = "rule \"calc\" salience 3 { when A.x + A.y * 2 > 6 then A.z = A.x * 2 + 1; A.w = A.z - A.x - A.y; total = A.w * A.f; }";
    match kb.add_rules_from_grl(grl) {
        Ok(1) => {}
        other => return (true, format!("GRL `{}` did not parse into one rule: {:?}", grl, other.map_err(|e| e.to_string()))),
    }
    let mut engine = RustRuleEngine::with_config(kb, EngineConfig { max_cycles: 1, timeout: None, enable_stats: false, debug_mode: false });
    let facts = base.to_facts();
    let res = engine.execute(&facts);
    if res.is_err() {
        return (true, format!("{}; GRL `{}`: execute returned {:?}", STORE_DESC, grl, res.err()));
    }
    for (k, w) in [("A.z", 7.0), ("A.w", 2.0), ("total", 5.0)] {
        let g = facts_read(&facts, k);
        if num(&g) != Some(w) || matches!(g, Value::String(_)) {
            return (true, format!("{}; GRL `{}`: {} = {:?}, expected {}", STORE_DESC, grl, k, g, w));
        }
    }
    (false, format!("{} two-rule sets with assignments `target = f1 [op f2 [op f3]]` ({}; targets: new/existing nested field, flat key, flat dotted key, absent object) + copies of strings/arrays/booleans + a GRL example ({} skipped: failing right-hand side)", tried, if crate::thorough() { "every expression x every target x true/false condition" } else { "one target per expression, the false condition for every 5th" }, skipped))
}
fn c01_rules_assignment() -> (bool, String) {
    guarded(crate::bound(90, 900) as u64, c01_rules_assignment_inner)
}

pub fn witnesses() -> Vec<crate::W> {
    vec![
        ("c01_operator_pairs", c01_operator_pairs),
        ("c01_arith_expressions", c01_arith_expressions),
        ("c01_rules_field_vs_literal", c01_rules_field_vs_literal),
        ("c01_rules_field_vs_field", c01_rules_field_vs_field),
        ("c01_rules_compound", c01_rules_compound),
        ("c01_rules_compound_grl", c01_rules_compound_grl),
        ("c01_rules_arith_condition", c01_rules_arith_condition),
        ("c01_rules_assignment", c01_rules_assignment),
    ]
}
