//! C07 (engine level, unit rete_frame): "a no-loop rule fires at most once between resets and at most one rule of an activation group
//! fires" for IncrementalEngine, over whole runs and across runs, when the rule ACTIONS hand every kind of ActionResult back to the
//! engine (process_action_results re-enters retract / insert_explicit / insert_logical / propagation / set_focus while the firing
//! is not yet recorded on the agenda).
//!
//! REFERENCE (from the statement).  A RESET is IncrementalEngine::reset().  Between two resets (and before the first):
//!   * the action of a no-loop rule is EXECUTED at most once (executions are counted by a recorder inside the action closure, over all
//!     fire_all calls of the period — not read off the returned lists);
//!   * of the activations that carry one activation group at most one is executed;
//!   * each fire_all returns exactly the names of the actions it executed, in order.
//! Nothing is required about WHICH rules fire (that is C06) nor about focus order (the agenda-level witnesses of c07.rs).
//!
//! Register in main.rs with `mod rete_frame;` and `all.extend(rete_frame::witnesses());`.
use rust_rule_engine::rete::propagation::IncrementalEngine;
use rust_rule_engine::rete::{ActionResult, ActionResults, Activation, AlphaNode, FactValue, ReteUlNode, TypedFacts, TypedReteUlRule};
use std::sync::{Arc, Mutex};

/// what a rule's action hands back to the engine
const ACTIONS: [&str; 13] = [
    "nothing",
    "ActivateAgendaGroup(G)",
    "ActivateAgendaGroup(MAIN)",
    "InsertFact T{x:1}",
    "Update(matched)",
    "Retract(matched)",
    "RetractByType(T)",
    "InsertLogicalFact T{x:1} premises=[matched]",
    "CallFunction(f)",
    "ScheduleRule",
    "None",
    "sets T.n (written back to working memory)",
    "ActivateAgendaGroup(G) + InsertFact T{x:1} + Update(matched)",
];

fn always() -> ReteUlNode {
    ReteUlNode::UlAlpha(AlphaNode { field: "T.x".to_string(), operator: ">".to_string(), value: "0".to_string() })
}

fn fact(n: i64) -> TypedFacts {
    let mut t = TypedFacts::new();
    t.set("x", 1i64);
    t.set("n", n);
    t
}

fn emit(kind: usize, rule: &str, facts: &mut TypedFacts, results: &mut ActionResults, calls: usize) {
    let matched = facts.get_fact_handle("T");
    match kind {
        1 => results.add(ActionResult::ActivateAgendaGroup("G".to_string())),
        2 => results.add(ActionResult::ActivateAgendaGroup("MAIN".to_string())),
        3 => results.add(ActionResult::InsertFact { fact_type: "T".to_string(), data: fact(0) }),
        4 => {
            if let Some(h) = matched {
                results.add(ActionResult::Update(h));
            }
        }
        5 => {
            if let Some(h) = matched {
                results.add(ActionResult::Retract(h));
            }
        }
        6 => results.add(ActionResult::RetractByType("T".to_string())),
        7 => results.add(ActionResult::InsertLogicalFact {
            fact_type: "T".to_string(),
            data: fact(0),
            rule_name: rule.to_string(),
            premises: matched.into_iter().collect(),
        }),
        8 => results.add(ActionResult::CallFunction { function_name: "f".to_string(), args: vec!["a".to_string()] }),
        9 => results.add(ActionResult::ScheduleRule { rule_name: rule.to_string(), delay_ms: 1 }),
        10 => results.add(ActionResult::None),
        11 => facts.set("T.n", 100 + calls as i64),
        12 => {
            results.add(ActionResult::ActivateAgendaGroup("G".to_string()));
            results.add(ActionResult::InsertFact { fact_type: "T".to_string(), data: fact(0) });
            if let Some(h) = matched {
                results.add(ActionResult::Update(h));
            }
        }
        _ => {}
    }
}

#[derive(Clone, Copy, Debug)]
struct R {
    no_loop: bool,
    priority: i32,
    action: usize,
}

#[derive(Clone, Copy, Debug)]
enum Op {
    Insert,
    UpdateFirst,
    RetractFirst,
    Fire,
    Reset,
    /// the user queues an activation for rule `0` / `1` in activation group "ag" through agenda_mut() (no-loop flag as given)
    Queue(usize, bool),
}

fn show(rules: &[R], ops: &[Op]) -> String {
    let rs: Vec<String> = rules
        .iter()
        .enumerate()
        .map(|(i, r)| format!("R{} {{ when T.x > 0, no_loop={}, priority={}, action: {} }}", i, r.no_loop, r.priority, ACTIONS[r.action]))
        .collect();
    format!("IncrementalEngine; rules [{}] all depending on T; f registered; history {:?}", rs.join("; "), ops)
}

/// runs the history; Some(description) when the reference is violated
fn run(rules: &[R], ops: &[Op]) -> Option<String> {
    let log: Arc<Mutex<Vec<(String, bool)>>> = Arc::new(Mutex::new(Vec::new())); // (rule name, activation queued by hand in group "ag"?) in execution order
    let mut e = IncrementalEngine::new();
    e.register_function("f", |_args, _facts| Ok(FactValue::Boolean(true)));
    for (i, r) in rules.iter().enumerate() {
        let name = format!("R{}", i);
        let lg = log.clone();
        let kind = r.action;
        let nm = name.clone();
        let bounded = r.no_loop;
        let mine = std::sync::atomic::AtomicUsize::new(0);
        e.add_rule(
            TypedReteUlRule {
                name,
                node: always(),
                priority: r.priority,
                no_loop: r.no_loop,
                action: Arc::new(move |facts, results| {
                    // an activation made by propagation always names its fact (fire_all then injects the handle); one queued by hand
                    // through agenda_mut() names none: that is how the recorder tells the grouped activations apart
                    let by_hand = facts.get_fact_handle("T").is_none();
                    let calls = {
                        let mut l = lg.lock().unwrap();
                        l.push((nm.clone(), by_hand));
                        l.len()
                    };
                    emit(kind, &nm, facts, results, calls);
                    // a rule without no-loop re-fires for as long as a fact matches: from its 3rd execution on it also switches the
                    // facts off (a fresh negative T.x — fresh, so that it differs from whatever the flattened view showed and IS written
                    // back, to every T fact), so that the run ends instead of hitting the iteration bound
                    if !bounded && mine.fetch_add(1, std::sync::atomic::Ordering::SeqCst) >= 2 {
                        facts.set("T.x", -(calls as i64));
                    }
                }),
            },
            vec!["T".to_string()],
        );
    }
    let mut handles = Vec::new();
    let mut period_start = 0usize; // index into the log where the current between-resets period began
    for (k, op) in ops.iter().enumerate() {
        match op {
            Op::Insert => handles.push(e.insert("T".to_string(), fact(k as i64))),
            Op::UpdateFirst => {
                if let Some(h) = handles.first() {
                    let _ = e.update(*h, fact(50 + k as i64));
                }
            }
            Op::RetractFirst => {
                if !handles.is_empty() {
                    let h = handles.remove(0);
                    let _ = e.retract(h);
                }
            }
            Op::Reset => {
                e.reset();
                period_start = log.lock().unwrap().len();
            }
            Op::Queue(i, no_loop) => {
                if *i < rules.len() {
                    let a = Activation::new(format!("R{}", i), 5).with_no_loop(*no_loop).with_activation_group("ag".to_string());
                    e.agenda_mut().add_activation(a);
                }
            }
            Op::Fire => {
                let before = log.lock().unwrap().len();
                let returned = e.fire_all();
                let l = log.lock().unwrap().clone();
                let executed: Vec<String> = l[before..].iter().map(|(n, _)| n.clone()).collect();
                if returned != executed {
                    return Some(format!("op #{} fire_all returned {:?} but the actions executed were {:?}", k, returned, executed));
                }
                // no-loop: at most one execution per rule in the period
                for (i, r) in rules.iter().enumerate() {
                    let name = format!("R{}", i);
                    let n = l[period_start..].iter().filter(|(x, _)| *x == name).count();
                    // activations queued by hand carry their own no-loop flag; a rule is bound by the reference when every activation
                    // that can exist for it in this history is no-loop
                    let hand_queued_loose = ops.iter().any(|o| matches!(o, Op::Queue(j, false) if *j == i));
                    if r.no_loop && !hand_queued_loose && n > 1 {
                        return Some(format!("no-loop rule {} executed {} times since the last reset (op #{}); executions of the period{}: {:?}", name, n, k, cut_note(&l[period_start..]), cut(&l[period_start..])));
                    }
                }
                // activation group: at most one execution of an activation queued in group "ag" in the period
                let g = l[period_start..].iter().filter(|(_, by_hand)| *by_hand).count();
                if g > 1 {
                    return Some(format!("{} activations of activation group ag executed since the last reset (op #{}); executions of the period (name, of the group){}: {:?}", g, k, cut_note(&l[period_start..]), cut(&l[period_start..])));
                }
            }
        }
    }
    None
}

/// every pair of rules (no_loop x priority x 13 kinds of action result) under histories that fire twice without a reset in between
fn c07_engine_no_loop_rule_fires_once_between_resets_search() -> (bool, String) {
    let histories: Vec<Vec<Op>> = vec![
        vec![Op::Insert, Op::Fire, Op::Insert, Op::Fire],
        vec![Op::Insert, Op::Insert, Op::Fire, Op::UpdateFirst, Op::Fire, Op::RetractFirst, Op::Fire],
        vec![Op::Insert, Op::Fire, Op::Reset, Op::Insert, Op::Fire, Op::Insert, Op::Fire],
    ];
    let mut n = 0usize;
    let mut shapes = Vec::new();
    for a in 0..ACTIONS.len() {
        for nl in [true, false] {
            if !nl && spawns_facts(a) {
                continue; // a rule without no-loop that asserts a fact per firing runs into the iteration bound with ~1000 facts: slow, and C07 termination's business
            }
            for p in [0, 1] {
                shapes.push(R { no_loop: nl, priority: p, action: a });
            }
        }
    }
    // one rule
    for r0 in &shapes {
        for h in &histories {
            n += 1;
            if let Some(why) = run(&[*r0], h) {
                return (true, format!("{}: {}", show(&[*r0], h), why));
            }
        }
    }
    // two rules: the first always no-loop (the one the reference binds), the second anything
    for r0 in shapes.iter().filter(|r| r.no_loop) {
        for r1 in &shapes {
            for h in &histories {
                n += 1;
                if let Some(why) = run(&[*r0, *r1], h) {
                    return (true, format!("{}: {}", show(&[*r0, *r1], h), why));
                }
            }
        }
    }
    (false, format!("{} histories (1-2 always-true rules x 13 kinds of action result x fire / insert / update / retract / fire / reset): no no-loop rule executed twice between resets, every fire_all returned the executed actions in order", n))
}

/// activations queued by hand (agenda_mut) in ONE activation group for two rules whose actions hand results back, with and without
/// facts that make propagation queue ungrouped activations of the same rules alongside: at most one of the group runs between resets
fn c07_engine_one_firing_per_activation_group_search() -> (bool, String) {
    let mut n = 0usize;
    for a0 in 0..ACTIONS.len() {
        for a1 in 0..ACTIONS.len() {
            for nl in [true, false] {
                if !nl && (spawns_facts(a0) || spawns_facts(a1)) {
                    continue;
                }
                let rules = [R { no_loop: nl, priority: 0, action: a0 }, R { no_loop: nl, priority: 1, action: a1 }];
                for ops in [
                    vec![Op::Queue(0, nl), Op::Queue(1, nl), Op::Fire],
                    vec![Op::Queue(0, nl), Op::Fire, Op::Queue(1, nl), Op::Fire],
                    vec![Op::Insert, Op::Queue(0, nl), Op::Queue(1, nl), Op::Fire, Op::Insert, Op::Queue(0, nl), Op::Fire],
                    vec![Op::Queue(1, nl), Op::Fire, Op::Reset, Op::Queue(0, nl), Op::Queue(1, nl), Op::Fire],
                ] {
                    n += 1;
                    if let Some(why) = run(&rules, &ops) {
                        return (true, format!("{}: {}", show(&rules, &ops), why));
                    }
                }
            }
        }
    }
    (false, format!("{} histories with hand-queued activations of one activation group (13 x 13 kinds of action result): never more than one of the group executed between resets", n))
}

/// at most the first 12 entries of a log are printed
fn cut(l: &[(String, bool)]) -> &[(String, bool)] {
    &l[..l.len().min(12)]
}
fn cut_note(l: &[(String, bool)]) -> String {
    if l.len() > 12 { format!(" (first 12 of {})", l.len()) } else { String::new() }
}

/// the action asserts a new fact every time it runs
fn spawns_facts(a: usize) -> bool {
    matches!(a, 3 | 7 | 12)
}

pub fn witnesses() -> Vec<crate::W> {
    vec![
        ("c07_engine_no_loop_rule_fires_once_between_resets_search", c07_engine_no_loop_rule_fires_once_between_resets_search),
        ("c07_engine_one_firing_per_activation_group_search", c07_engine_one_firing_per_activation_group_search),
    ]
}
