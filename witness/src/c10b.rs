//! C10, FIRST sentence: "A backward-chaining query that is reported not provable leaves the caller's facts exactly as they were
//! before the call."  (src/backward/search.rs through BackwardEngine::query; the undo frames of Facts themselves are in c10.rs.)
//! Register in main.rs with `mod c10b;` and `all.extend(c10b::witnesses());`.
//!
//! Reference (from the statement only): snapshot get_all_facts() before the call; if the call returns Ok with provable == false, the
//! snapshot taken after the call must be equal.  Calls that return Err or panic report nothing and are skipped.
//!
//! One witness per search strategy (the three strategies are three different code paths):
//!   c10_failed_query_search_{dfs,iterative,bfs}
//!        every rule set of <= 3 rules out of a pool of 15 Horn-style rules (And / Or conditions, shared sub-goals, a dead end, a cycle,
//!        wrong-value conclusions, action lists that fail part-way after a Set) plus 8 hand-picked sets of 4; two field namings; up to
//!        5 start states; the 4 atomic goals P/Q/G == true, G == false; max_depth 0..4; (dfs: also max_solutions 3 on the sets of 1, 2, 4)
//!   c10_failed_query_after_success_{dfs,iterative,bfs}
//!        the same engine and the same facts asked TWO queries in a row: if the first is provable (it keeps what it derived, and the
//!        depth-first search leaves its undo frame open) and the second is reported not provable, the facts must equal what they
//!        were between the two calls
//!   c10_bfs_failed_query_keeps_rule_effects
//!        fixed history, NEW FINDING on the current tree: BreadthFirstSearch::search_with_execution opens no undo frame at all, so a
//!        candidate rule that fires but concludes the wrong value leaves its assignment in the caller's facts although the query is
//!        reported not provable (the two *_bfs searches reproduce for the same reason until that is repaired)
use rust_rule_engine::backward::{BackwardConfig, BackwardEngine, SearchStrategy};
use rust_rule_engine::{ActionType, Condition, ConditionGroup, Facts, KnowledgeBase, Operator, Rule, Value};
use std::collections::HashMap;
use std::panic::{catch_unwind, AssertUnwindSafe};
use std::sync::atomic::{AtomicU64, Ordering};
use std::sync::{mpsc, Arc, Mutex};
use std::time::Duration;


/// field names: naming 0 puts every field on one object (`U.A`, `U.P`, ..: the conclusion index then proposes every rule that
/// writes any `U.*` field for every goal), naming 1 gives every field its own object (`A.v`, `P.v`, ..: only direct matches).
fn fld(naming: usize, f: &str) -> String {
    if naming == 0 {
        format!("U.{}", f)
    } else {
        format!("{}.v", f)
    }
}

/// a condition atom `F == b`
#[derive(Clone, Copy)]
struct Atom(&'static str, bool);

#[derive(Clone, Copy)]
enum Act {
    Set(&'static str, bool),
    /// a method call on an object that is not among the facts: Err("Object not found")
    CallMissing,
    /// `Car.setSpeed("fast")` on the existing object Car: Err("setSpeed requires a number argument")
    CallBadArg,
    /// `Car.setSpeed(7)`: succeeds and changes the fact `Car`
    CallOk,
}

struct Tmpl {
    name: &'static str,
    /// joined by && (or by || when `any` is set)
    conds: &'static [Atom],
    any: bool,
    acts: &'static [Act],
}

/// the pool: base fact A (and B, never derivable); derived P, Q, G
const POOL: [Tmpl; 15] = [
    Tmpl { name: "p_from_a", conds: &[Atom("A", true)], any: false, acts: &[Act::Set("P", true)] },
    Tmpl { name: "q_from_a", conds: &[Atom("A", true)], any: false, acts: &[Act::Set("Q", true)] },
    Tmpl { name: "g_from_pq", conds: &[Atom("P", true), Atom("Q", true)], any: false, acts: &[Act::Set("G", true)] },
    Tmpl { name: "g_from_p", conds: &[Atom("P", true)], any: false, acts: &[Act::Set("G", true)] },
    // wrong-value conclusions: the rule runs but writes the other value
    Tmpl { name: "g_wrong_from_p", conds: &[Atom("P", true)], any: false, acts: &[Act::Set("G", false)] },
    Tmpl { name: "g_wrong_from_pq", conds: &[Atom("P", true), Atom("Q", true)], any: false, acts: &[Act::Set("G", false)] },
    Tmpl { name: "p_wrong_from_a", conds: &[Atom("A", true)], any: false, acts: &[Act::Set("P", false)] },
    // action lists that fail part-way
    Tmpl { name: "g_then_missing_obj", conds: &[Atom("P", true)], any: false, acts: &[Act::Set("G", true), Act::CallMissing] },
    Tmpl { name: "q_then_bad_arg", conds: &[Atom("A", true)], any: false, acts: &[Act::Set("Q", true), Act::CallBadArg] },
    Tmpl { name: "car_then_q_then_missing", conds: &[Atom("A", true)], any: false, acts: &[Act::CallOk, Act::Set("Q", true), Act::CallMissing] },
    // dead end (B is never a fact and no rule writes it) and a cycle
    Tmpl { name: "q_from_b", conds: &[Atom("B", true)], any: false, acts: &[Act::Set("Q", true)] },
    Tmpl { name: "p_from_g", conds: &[Atom("G", true)], any: false, acts: &[Act::Set("P", true)] },
    Tmpl { name: "q_from_p", conds: &[Atom("P", true)], any: false, acts: &[Act::Set("Q", true)] },
    // two conclusions, one of them wanted and one a by-product
    Tmpl { name: "g_wrong_from_p_or_b", conds: &[Atom("P", true), Atom("B", true)], any: true, acts: &[Act::Set("G", false)] },
    Tmpl { name: "p_and_wrong_q_from_a", conds: &[Atom("A", true)], any: false, acts: &[Act::Set("P", true), Act::Set("Q", false)] },
];

fn build_rule(naming: usize, t: &Tmpl) -> Rule {
    let atom = |a: &Atom| ConditionGroup::single(Condition::new(fld(naming, a.0), Operator::Equal, Value::Boolean(a.1)));
    let mut g = atom(&t.conds[0]);
    for a in &t.conds[1..] {
        g = if t.any { ConditionGroup::or(g, atom(a)) } else { ConditionGroup::and(g, atom(a)) };
    }
    let acts = t
        .acts
        .iter()
        .map(|a| match a {
            Act::Set(f, b) => ActionType::Set { field: fld(naming, f), value: Value::Boolean(*b) },
            Act::CallMissing => ActionType::MethodCall { object: "Ghost".into(), method: "setSpeed".into(), args: vec![Value::Integer(1)] },
            Act::CallBadArg => ActionType::MethodCall { object: "Car".into(), method: "setSpeed".into(), args: vec![Value::String("fast".into())] },
            Act::CallOk => ActionType::MethodCall { object: "Car".into(), method: "setSpeed".into(), args: vec![Value::Integer(7)] },
        })
        .collect();
    Rule::new(t.name.to_string(), g, acts)
}

fn describe(naming: usize, set: &[usize]) -> String {
    set.iter()
        .map(|&i| {
            let t = &POOL[i];
            let c: Vec<String> = t.conds.iter().map(|a| format!("{} == {}", fld(naming, a.0), a.1)).collect();
            let a: Vec<String> = t
                .acts
                .iter()
                .map(|a| match a {
                    Act::Set(f, b) => format!("{} = {}", fld(naming, f), b),
                    Act::CallMissing => "Ghost.setSpeed(1) [no such object]".to_string(),
                    Act::CallBadArg => "Car.setSpeed(\"fast\") [bad argument]".to_string(),
                    Act::CallOk => "Car.setSpeed(7)".to_string(),
                })
                .collect();
            format!("{}: {} => {}", t.name, c.join(if t.any { " || " } else { " && " }), a.join("; "))
        })
        .collect::<Vec<_>>()
        .join(" | ")
}

/// start states (the object Car is always there): 0 = nothing else; 1 = A; 2 = A and a stale P = false; 3 = A, Q; 4 = A, P, Q (every
/// wrong-value / failing rule of the pool fires directly)
const STATES: usize = 5;
fn start(naming: usize, state: usize) -> Facts {
    let f = Facts::new();
    let mut car = HashMap::new();
    car.insert("Speed".to_string(), Value::Integer(0));
    f.set("Car", Value::Object(car));
    if state >= 1 {
        f.set(&fld(naming, "A"), Value::Boolean(true));
    }
    if state == 2 {
        f.set(&fld(naming, "P"), Value::Boolean(false));
    }
    if state >= 3 {
        f.set(&fld(naming, "Q"), Value::Boolean(true));
    }
    if state == 4 {
        f.set(&fld(naming, "P"), Value::Boolean(true));
    }
    f
}

fn goals(naming: usize) -> Vec<String> {
    let mut g = Vec::new();
    for f in ["P", "Q", "G"] {
        g.push(format!("{} == true", fld(naming, f)));
    }
    g.push(format!("{} == false", fld(naming, "G")));
    g
}

fn sorted(f: &Facts) -> Vec<(String, Value)> {
    let mut all: Vec<(String, Value)> = f.get_all_facts().into_iter().collect();
    all.sort_by(|a, b| a.0.cmp(&b.0));
    all
}

fn engine(naming: usize, set: &[usize], strategy: SearchStrategy, depth: usize, max_solutions: usize) -> BackwardEngine {
    let kb = KnowledgeBase::new("c10");
    for &i in set {
        kb.add_rule(build_rule(naming, &POOL[i])).unwrap();
    }
    BackwardEngine::with_config(kb, BackwardConfig { max_depth: depth, strategy, enable_memoization: false, max_solutions })
}

/// Some(provable) or None (error / panic: nothing was reported)
fn ask(e: &mut BackwardEngine, q: &str, f: &mut Facts) -> Option<bool> {
    match catch_unwind(AssertUnwindSafe(|| e.query(q, f).map(|r| r.provable))) {
        Ok(Ok(b)) => Some(b),
        _ => None,
    }
}

/// all subsets of the pool of size 1..=3, plus hand-picked sets of 4 that combine shared sub-goals, wrong values, failing actions
/// and a cycle behind one goal
/// (`max_size` = 3 in the quick tier, 4 in the thorough tier: every subset of 1..=max_size rules, in the order a; a,b; a,b,c; ..)
const HAND_PICKED: usize = 8;
fn rule_sets(max_size: usize) -> Vec<Vec<usize>> {
    let n = POOL.len();
    let mut v: Vec<Vec<usize>> = Vec::new();
    fn extend(v: &mut Vec<Vec<usize>>, cur: &mut Vec<usize>, from: usize, n: usize, max_size: usize) {
        for a in from..n {
            cur.push(a);
            v.push(cur.clone());
            if cur.len() < max_size {
                extend(v, cur, a + 1, n, max_size);
            }
            cur.pop();
        }
    }
    extend(&mut v, &mut Vec::new(), 0, n, max_size);
    let idx = |name: &str| POOL.iter().position(|t| t.name == name).unwrap();
    for four in [
        ["p_from_a", "q_from_a", "g_wrong_from_pq", "g_from_pq"],
        ["p_from_a", "q_from_a", "g_wrong_from_pq", "g_then_missing_obj"],
        ["p_from_a", "q_from_b", "g_from_pq", "g_wrong_from_p"],
        ["p_from_a", "q_then_bad_arg", "g_from_pq", "q_from_b"],
        ["p_from_g", "g_from_p", "q_from_p", "g_wrong_from_pq"],
        ["p_from_g", "g_from_pq", "q_from_a", "p_wrong_from_a"],
        ["p_and_wrong_q_from_a", "g_from_pq", "q_from_p", "car_then_q_then_missing"],
        ["p_from_a", "q_from_p", "g_wrong_from_pq", "car_then_q_then_missing"],
    ] {
        v.push(four.iter().map(|s| idx(s)).collect());
    }
    v
}

/// runs `work` on a thread; `work` bumps the counter and records its current input before every call into the crate.  If the
/// counter stands still for 20 s the input it is stuck on is reported as a violation (a query must return).
fn watched(work: impl FnOnce(&AtomicU64, &Mutex<String>) -> (bool, String) + Send + 'static) -> (bool, String) {
    let ticks = Arc::new(AtomicU64::new(0));
    let cur = Arc::new(Mutex::new(String::new()));
    let (tx, rx) = mpsc::channel();
    let (t2, c2) = (ticks.clone(), cur.clone());
    std::thread::spawn(move || {
        let hook = std::panic::take_hook();
        std::panic::set_hook(Box::new(|_| {}));
        let r = catch_unwind(AssertUnwindSafe(|| work(&t2, &c2)));
        std::panic::set_hook(hook);
        let _ = tx.send(r.unwrap_or_else(|_| (true, format!("panicked outside a query on {}", c2.lock().map(|s| s.clone()).unwrap_or_default()))));
    });
    let mut last = 0u64;
    let mut idle = 0u32;
    loop {
        match rx.recv_timeout(Duration::from_millis(250)) {
            Ok(r) => return r,
            Err(mpsc::RecvTimeoutError::Disconnected) => return (true, "search thread died".to_string()),
            Err(mpsc::RecvTimeoutError::Timeout) => {
                let now = ticks.load(Ordering::SeqCst);
                if now == last {
                    idle += 1;
                    if idle >= 80 {
                        return (true, format!("did not return within 20 s: {}", cur.lock().map(|s| s.clone()).unwrap_or_default()));
                    }
                } else {
                    last = now;
                    idle = 0;
                }
            }
        }
    }
}

fn failed_query_search(strategy: SearchStrategy) -> (bool, String) {
    watched(move |ticks, cur| {
        let max_size = crate::bound(3, 4);
        let sets = rule_sets(max_size);
        let (mut asked, mut failed, mut skipped) = (0u64, 0u64, 0u64);
        for naming in 0..2 {
            let gs = goals(naming);
            for set in &sets {
                // max_solutions > 1 is read by the depth-first search only; tried on the sets of 1, 2 and 4 rules
                let sols: &[usize] = if strategy == SearchStrategy::DepthFirst && set.len() != 3 { &[1, 3] } else { &[1] };
                // state 0 (no base fact: no rule of the pool ever fires) only with the sets of 1 and 2 rules
                for state in (if set.len() <= 2 { 0 } else { 1 })..STATES {
                    for &max_solutions in sols {
                        for depth in 0..=4usize {
                            for q in &gs {
                                let mut e = engine(naming, set, strategy, depth, max_solutions);
                                let mut f = start(naming, state);
                                let before = sorted(&f);
                                ticks.fetch_add(1, Ordering::SeqCst);
                                if let Ok(mut c) = cur.try_lock() {
                                    *c = format!("rules [{}]; facts {:?}; {:?} max_depth {} max_solutions {}; query({})", describe(naming, set), before, strategy, depth, max_solutions, q);
                                }
                                asked += 1;
                                match ask(&mut e, q, &mut f) {
                                    Some(false) => {
                                        failed += 1;
                                        let after = sorted(&f);
                                        if after != before {
                                            return (
                                                true,
                                                format!(
                                                    "rules [{}]; strategy {:?}, max_depth {}, max_solutions {}, memoisation off; facts before {:?}; query({}) reported NOT provable; facts after {:?}",
                                                    describe(naming, set),
                                                    strategy,
                                                    depth,
                                                    max_solutions,
                                                    before,
                                                    q,
                                                    after
                                                ),
                                            );
                                        }
                                    }
                                    Some(true) => {}
                                    None => skipped += 1,
                                }
                            }
                        }
                    }
                }
            }
        }
        (
            false,
            format!(
                "{:?}: {} queries ({} rule sets [every set of <= {} rules out of 15 + 8 hand-picked sets of 4] x 2 field namings x up to {} start states x max_depth 0..4 x 4 goals): {} reported not provable, all with facts unchanged; {} errored or panicked (nothing reported: skipped)",
                strategy,
                asked,
                sets.len(),
                max_size,
                STATES,
                failed,
                skipped
            ),
        )
    })
}

fn failed_query_after_success(strategy: SearchStrategy) -> (bool, String) {
    watched(move |ticks, cur| {
        // quick tier: every set of <= 2 rules, the sets of 3 whose first rule is one of the first four of the pool, the hand-picked
        // sets of 4; thorough tier: every set of <= 3 rules, the sets of 4 whose first rule is one of the first four, the hand-picked
        let (max_size, full_size) = (crate::bound(3, 4), crate::bound(2, 3));
        let all = rule_sets(max_size);
        let n_all = all.len();
        let sets: Vec<Vec<usize>> = all.into_iter().enumerate().filter(|(i, s)| *i >= n_all - HAND_PICKED || s.len() <= full_size || s[0] < 4).map(|(_, s)| s).collect();
        let (mut pairs, mut checked) = (0u64, 0u64);
        for naming in 0..2 {
            let gs = goals(naming);
            for set in &sets {
                for state in [1usize, 3, 4] {
                    {
                        for depth in [2usize, 4] {
                            for q1 in &gs {
                                for q2 in &gs {
                                    let mut e = engine(naming, set, strategy, depth, 1);
                                    let mut f = start(naming, state);
                                    let start_facts = sorted(&f);
                                    ticks.fetch_add(1, Ordering::SeqCst);
                                    if let Ok(mut c) = cur.try_lock() {
                                        *c = format!("rules [{}]; facts {:?}; {:?} max_depth {}; query({}) then query({})", describe(naming, set), start_facts, strategy, depth, q1, q2);
                                    }
                                    pairs += 1;
                                    let r1 = ask(&mut e, q1, &mut f);
                                    if r1 != Some(true) {
                                        continue; // a failed first query is the other witness's business
                                    }
                                    let between = sorted(&f);
                                    if ask(&mut e, q2, &mut f) == Some(false) {
                                        checked += 1;
                                        let after = sorted(&f);
                                        if after != between {
                                            return (
                                                true,
                                                format!(
                                                    "rules [{}]; strategy {:?}, max_depth {}, memoisation off; facts {:?}; query({}) = provable, facts then {:?}; query({}) reported NOT provable; facts after {:?}",
                                                    describe(naming, set),
                                                    strategy,
                                                    depth,
                                                    start_facts,
                                                    q1,
                                                    between,
                                                    q2,
                                                    after
                                                ),
                                            );
                                        }
                                    }
                                }
                            }
                        }
                    }
                }
            }
        }
        (false, format!("{:?}: {} query pairs ({} rule sets: every set of <= {} rules, the sets of {} starting with one of the first 4 rules, 8 hand-picked sets of 4) on one engine and one fact store; {} times a provable first query was followed by a not-provable second one: facts unchanged by the second every time", strategy, pairs, sets.len(), full_size, max_size, checked))
    })
}

/// fixed history, breadth-first strategy: the breadth-first search runs candidate rules directly on the caller's facts and never
/// opens an undo frame, so a rule that fires but concludes the wrong value leaves its assignment behind although the query fails.
fn c10_bfs_failed_query_keeps_rule_effects() -> (bool, String) {
    let kb = KnowledgeBase::new("c10");
    kb.add_rule(Rule::new(
        "Minor".into(),
        ConditionGroup::single(Condition::new("User.Age".into(), Operator::LessThan, Value::Integer(18))),
        vec![ActionType::Set { field: "User.IsAdult".into(), value: Value::Boolean(false) }],
    ))
    .unwrap();
    let mut e = BackwardEngine::with_config(kb, BackwardConfig { max_depth: 10, strategy: SearchStrategy::BreadthFirst, enable_memoization: false, max_solutions: 1 });
    let mut f = Facts::new();
    f.set("User.Age", Value::Integer(10));
    let before = sorted(&f);
    let r = ask(&mut e, "User.IsAdult == true", &mut f);
    let after = sorted(&f);
    (
        r == Some(false) && after != before,
        format!(
            "rule Minor: User.Age < 18 => User.IsAdult = false; strategy BreadthFirst, max_depth 10, memoisation off; facts before {:?}; query(User.IsAdult == true) = {}; facts after {:?}",
            before,
            match r {
                Some(true) => "provable",
                Some(false) => "NOT provable",
                None => "error",
            },
            after
        ),
    )
}

pub fn witnesses() -> Vec<crate::W> {
    vec![
        ("c10_bfs_failed_query_keeps_rule_effects", c10_bfs_failed_query_keeps_rule_effects),
        ("c10_failed_query_search_dfs", || failed_query_search(SearchStrategy::DepthFirst)),
        ("c10_failed_query_search_iterative", || failed_query_search(SearchStrategy::Iterative)),
        ("c10_failed_query_search_bfs", || failed_query_search(SearchStrategy::BreadthFirst)),
        ("c10_failed_query_after_success_dfs", || failed_query_after_success(SearchStrategy::DepthFirst)),
        ("c10_failed_query_after_success_iterative", || failed_query_after_success(SearchStrategy::Iterative)),
        ("c10_failed_query_after_success_bfs", || failed_query_after_success(SearchStrategy::BreadthFirst)),
    ]
}
