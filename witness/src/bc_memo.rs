//! C11 witnesses: BackwardEngine::query (src/backward/backward_engine.rs).  Wire into main.rs with `mod bc_memo;` +
//! `all.extend(bc_memo::witnesses());`.  Every answer of an engine with a history is compared with the answer of a FRESHLY BUILT
//! engine (same rules, same configuration) on a private copy of the caller's facts as they are at that moment.
//!
//!   c11_stale_memo_after_fact_change   fixed history, default configuration (memoisation on)                 [expected: reproduces]
//!   c11_aggregate_differs_on_second_call  facts unchanged: the same aggregate query twice; a hit carries no solutions  [expected: reproduces]
//!   c11_memo_search                    all sequences of <= 4 operations, memoisation on                      [expected: reproduces]
//!   c11_no_memo_search                 the same search with memoisation off: only a STABLE difference counts [expected: nothing]
//!   c11_identical_fresh_runs_disagree  no history at all: the same query on equal facts, fresh engine each time, repeated; the answers
//!                                      must all be equal (they were not: candidate rules were tried in HashSet iteration order)
use rust_rule_engine::backward::{BackwardConfig, BackwardEngine, SearchStrategy};
use rust_rule_engine::{ActionType, Condition, ConditionGroup, Facts, KnowledgeBase, Operator, Rule, Value};
use std::panic::{catch_unwind, AssertUnwindSafe};

const Q1: &str = "User.IsAdult == true";
const Q2: &str = "User.IsVIP == true";
const STRATEGIES: [SearchStrategy; 3] = [SearchStrategy::DepthFirst, SearchStrategy::BreadthFirst, SearchStrategy::Iterative];
const RULES: &str = "rules Adult: User.Age > 18 => User.IsAdult = true; Vip: User.IsAdult == true && User.Points > 100 => User.IsVIP = true";

/// IsAdult <- Age > 18 ;  IsVIP <- IsAdult == true && Points > 100   (IsVIP chains through IsAdult)
fn kb() -> KnowledgeBase {
    let kb = KnowledgeBase::new("c11");
    kb.add_rule(Rule::new(
        "Adult".into(),
        ConditionGroup::single(Condition::new("User.Age".into(), Operator::GreaterThan, Value::Number(18.0))),
        vec![ActionType::Set { field: "User.IsAdult".into(), value: Value::Boolean(true) }],
    ))
    .unwrap();
    kb.add_rule(Rule::new(
        "Vip".into(),
        ConditionGroup::and(
            ConditionGroup::single(Condition::new("User.IsAdult".into(), Operator::Equal, Value::Boolean(true))),
            ConditionGroup::single(Condition::new("User.Points".into(), Operator::GreaterThan, Value::Number(100.0))),
        ),
        vec![ActionType::Set { field: "User.IsVIP".into(), value: Value::Boolean(true) }],
    ))
    .unwrap();
    kb
}

fn config(memo: bool, strategy: SearchStrategy) -> BackwardConfig {
    BackwardConfig { max_depth: 10, strategy, enable_memoization: memo, max_solutions: 1 }
}

fn sorted(f: &Facts) -> Vec<(String, Value)> {
    let mut all: Vec<(String, Value)> = f.get_all_facts().into_iter().collect();
    all.sort_by(|a, b| a.0.cmp(&b.0));
    all
}

/// a private deep copy of the data (Facts::clone shares the underlying maps)
fn copy_facts(f: &Facts) -> Facts {
    let c = Facts::new();
    for (k, v) in sorted(f) {
        c.set(&k, v);
    }
    c
}

fn show(f: &Facts) -> String {
    format!("{:?}", sorted(f))
}

/// an answer: the verdict, an error, or a panic (a debug build panics inside the iterative-deepening search on some inputs; that
/// is not what these witnesses are about, so a panic is just one more possible answer)
#[derive(Clone, Copy, Debug, PartialEq, Eq)]
enum Ans {
    Yes,
    No,
    Error,
    Panicked,
}

fn ask(e: &mut BackwardEngine, q: &str, f: &mut Facts) -> Ans {
    match catch_unwind(AssertUnwindSafe(|| e.query(q, f).map(|r| r.provable))) {
        Ok(Ok(true)) => Ans::Yes,
        Ok(Ok(false)) => Ans::No,
        Ok(Err(_)) => Ans::Error,
        Err(_) => Ans::Panicked,
    }
}

/// what a freshly built engine answers on (a copy of) these facts
fn fresh(memo: bool, strategy: SearchStrategy, q: &str, f: &Facts) -> Ans {
    let mut e = BackwardEngine::with_config(kb(), config(memo, strategy));
    let mut c = copy_facts(f);
    ask(&mut e, q, &mut c)
}

fn quietly<T>(f: impl FnOnce() -> T) -> T {
    let hook = std::panic::take_hook();
    std::panic::set_hook(Box::new(|_| {}));
    let r = catch_unwind(AssertUnwindSafe(f));
    std::panic::set_hook(hook);
    match r {
        Ok(v) => v,
        Err(p) => std::panic::resume_unwind(p),
    }
}

/// fixed history (BackwardEngine::new: depth-first, memoisation on): Age = 10; query IsAdult (false); Age := 25; the same query again.
/// Also the opposite direction (true first), where the caller additionally removes the derived fact the first proof wrote.
fn c11_stale_memo_after_fact_change() -> (bool, String) {
    // direction 1: unprovable first
    let mut e = BackwardEngine::new(kb());
    let mut f = Facts::new();
    f.set("User.Age", Value::Number(10.0));
    let a1 = e.query(Q1, &mut f).unwrap().provable;
    f.set("User.Age", Value::Number(25.0));
    let fa = show(&f);
    let f2 = fresh(true, SearchStrategy::DepthFirst, Q1, &f);
    let a2 = e.query(Q1, &mut f).unwrap().provable;
    // direction 2: provable first; the proof writes User.IsAdult = true into the caller's facts, the caller retracts both
    let mut e = BackwardEngine::new(kb());
    let mut g = Facts::new();
    g.set("User.Age", Value::Number(25.0));
    let b1 = e.query(Q1, &mut g).unwrap().provable;
    g.set("User.Age", Value::Number(10.0));
    g.remove("User.IsAdult");
    let ga = show(&g);
    let g2 = fresh(true, SearchStrategy::DepthFirst, Q1, &g);
    let b2 = e.query(Q1, &mut g).unwrap().provable;
    let stale = (a2, f2) == (false, Ans::Yes) || (b2, g2) == (true, Ans::No);
    (
        stale,
        format!(
            "rule Adult: User.Age > 18 => User.IsAdult = true; BackwardEngine::new (memoisation on). \
             (1) Age=10; query({q}) = {a1}; Age:=25; query({q}) = {a2}; fresh engine on the same facts {fa}: {f2:?}. \
             (2) Age=25; query({q}) = {b1}; Age:=10, remove User.IsAdult; query({q}) = {b2}; fresh engine on the same facts {ga}: {g2:?}",
            q = Q1
        ),
    )
}

/// fixed history in which the facts never change between the two calls: the same aggregate query twice on one engine (default
/// configuration).  The memo table keeps only the verdict bit, so the second call gets a result without solutions to fold over.
fn c11_aggregate_differs_on_second_call() -> (bool, String) {
    let agg = "count(?x) WHERE User.IsAdult == true";
    let mut e = BackwardEngine::new(kb());
    let mut f = Facts::new();
    f.set("User.Age", Value::Number(25.0));
    let c1 = e.query_aggregate(agg, &mut f).ok();
    let at = show(&f);
    let mut fe = BackwardEngine::new(kb());
    let mut c = copy_facts(&f);
    let want = fe.query_aggregate(agg, &mut c).ok();
    let c2 = e.query_aggregate(agg, &mut f).ok();
    (
        c2 != want,
        format!(
            "rule Adult: User.Age > 18 => User.IsAdult = true; BackwardEngine::new (memoisation on); Age=25. \
             query_aggregate({agg:?}) = {c1:?}; the same call again on the same facts {at} = {c2:?}; a fresh engine on those facts: {want:?}"
        ),
    )
}

#[derive(Clone, Copy, Debug, PartialEq)]
enum Op {
    Q1,
    Q2,
    AgeHi,
    AgeLo,
    AgeGone,
    PointsHi,
    PointsGone,
    DropDerived,
}
const OPS: [Op; 8] = [Op::Q1, Op::Q2, Op::AgeHi, Op::AgeLo, Op::AgeGone, Op::PointsHi, Op::PointsGone, Op::DropDerived];
const OPS_TEXT: &str = "ops {query IsAdult, query IsVIP, Age:=25, Age:=10, remove Age, Points:=150, remove Points, remove the derived facts}";

fn is_query(op: Op) -> bool {
    matches!(op, Op::Q1 | Op::Q2)
}
fn text(op: Op) -> &'static str {
    if op == Op::Q1 {
        Q1
    } else {
        Q2
    }
}

fn apply(op: Op, f: &Facts) {
    match op {
        Op::AgeHi => f.set("User.Age", Value::Number(25.0)),
        Op::AgeLo => f.set("User.Age", Value::Number(10.0)),
        Op::AgeGone => {
            f.remove("User.Age");
        }
        Op::PointsHi => f.set("User.Points", Value::Number(150.0)),
        Op::PointsGone => {
            f.remove("User.Points");
        }
        Op::DropDerived => {
            f.remove("User.IsAdult");
            f.remove("User.IsVIP");
        }
        Op::Q1 | Op::Q2 => {}
    }
}

fn sequences(len: usize, f: &mut dyn FnMut(&[Op]) -> bool) {
    for n in 1..=len {
        let total = OPS.len().pow(n as u32);
        for code in 0..total {
            let mut c = code;
            let mut seq = Vec::with_capacity(n);
            for _ in 0..n {
                seq.push(OPS[c % OPS.len()]);
                c /= OPS.len();
            }
            if f(&seq) {
                return;
            }
        }
    }
}

/// runs `seq` on one engine; returns the answer of the LAST operation (a query), what a fresh engine answers there, and the log
fn run(memo: bool, strategy: SearchStrategy, seq: &[Op]) -> (Ans, Ans, String, Vec<(Ans, Ans)>) {
    let mut e = BackwardEngine::with_config(kb(), config(memo, strategy));
    let mut f = Facts::new();
    let mut log: Vec<String> = Vec::new();
    let mut pairs = Vec::new();
    let mut last = (Ans::Error, Ans::Error, String::new());
    for op in seq {
        if is_query(*op) {
            let before = show(&f);
            let want = fresh(memo, strategy, text(*op), &f);
            let got = ask(&mut e, text(*op), &mut f);
            log.push(format!("query({}) = {:?}", text(*op), got));
            pairs.push((got, want));
            last = (got, want, before);
        } else {
            apply(*op, &f);
            log.push(format!("{:?}", op));
        }
    }
    (last.0, last.1, format!("{} — a fresh engine on the same facts {} answers {:?}", log.join("; "), last.2, last.1), pairs)
}

/// every sequence of <= `len` operations ending in a query; the first (shortest) one whose last answer differs from a fresh
/// engine's.  With `stable_only`, the whole history is replayed 5 more times and the difference must show every time with the
/// same two answers (so that run-to-run variation of the search itself is not mistaken for dependence on the history).
fn search(memo: bool, len: usize, stable_only: bool) -> (Option<String>, usize, usize) {
    let mut seqs = 0usize;
    let mut unstable = 0usize;
    let mut found = None;
    for strategy in STRATEGIES {
        sequences(len, &mut |seq| {
            if !is_query(seq[seq.len() - 1]) {
                return false; // adds nothing over its prefix
            }
            seqs += 1;
            let (got, want, log, pairs) = run(memo, strategy, seq);
            // earlier queries of the sequence were the last query of a shorter sequence
            if pairs.iter().rev().skip(1).any(|(g, w)| g != w) || got == want {
                return false;
            }
            if stable_only {
                let again: Vec<(Ans, Ans)> = (0..5).map(|_| run(memo, strategy, seq)).map(|r| (r.0, r.1)).collect();
                if again.iter().any(|x| *x != (got, want)) {
                    unstable += 1;
                    return false;
                }
            }
            found = Some(format!("strategy {:?}, memoisation {}: {}", strategy, if memo { "on" } else { "off" }, log));
            true
        });
        if found.is_some() {
            break;
        }
    }
    (found, seqs, unstable)
}

/// bounded search with memoisation ON (the default): expected to reproduce
fn c11_memo_search() -> (bool, String) {
    let max_len = crate::bound(4, 6);
    quietly(|| match search(true, max_len, false) {
        (Some(d), _, _) => (true, format!("{}; {} :: {}", RULES, OPS_TEXT, d)),
        (None, s, _) => (false, format!("{}; {} :: {} runs (sequences of <= {} operations ending in a query, 3 strategies): every answer equals the fresh engine's", RULES, OPS_TEXT, s, max_len)),
    })
}

/// the same search with memoisation OFF: the engine keeps nothing between queries, so no stable difference may exist
fn c11_no_memo_search() -> (bool, String) {
    let max_len = crate::bound(4, 6);
    quietly(|| match search(false, max_len, true) {
        (Some(d), _, _) => (true, format!("{}; {} :: {}", RULES, OPS_TEXT, d)),
        (None, s, u) => (
            false,
            format!(
                "{}; {} :: {} runs (sequences of <= {} operations ending in a query, 3 strategies): no answer differs reproducibly from the fresh engine's \
                 ({} differences did not survive 5 replays of the same history: see c11_identical_fresh_runs_disagree)",
                RULES, OPS_TEXT, s, max_len, u
            ),
        ),
    })
}

/// no history: for every fact state reachable by <= 3 fact operations, both queries and the three strategies (memoisation off), a
/// freshly built engine is asked 12 times on equal facts.  The property's first sentence says the 12 answers are equal.
fn c11_identical_fresh_runs_disagree() -> (bool, String) {
    let repeats = crate::bound(12, 200);
    quietly(|| {
        let mut states: Vec<Vec<Op>> = vec![vec![]];
        sequences(3, &mut |seq| {
            if seq.iter().all(|o| !is_query(*o) && *o != Op::DropDerived) {
                states.push(seq.to_vec());
            }
            false
        });
        let mut seen = std::collections::BTreeSet::new();
        let mut tried = 0usize;
        let mut other: Option<String> = None; // a variation that is not a verdict flip (e.g. panic vs answer)
        for st in &states {
            let f = Facts::new();
            for op in st {
                apply(*op, &f);
            }
            if !seen.insert(show(&f)) {
                continue;
            }
            for strategy in STRATEGIES {
                for q in [Q1, Q2] {
                    tried += 1;
                    let answers: Vec<Ans> = (0..repeats).map(|_| fresh(false, strategy, q, &f)).collect();
                    if answers.iter().any(|a| *a != answers[0]) {
                        let d = format!(
                            "{} :: facts {}; strategy {:?}, memoisation off; {} freshly built engines, each asked query({}) once on its own copy of these facts: {:?}",
                            RULES,
                            show(&f),
                            strategy,
                            repeats,
                            q,
                            answers
                        );
                        if answers.contains(&Ans::Yes) && answers.contains(&Ans::No) {
                            return (true, d);
                        }
                        other.get_or_insert(d);
                    }
                }
            }
        }
        match other {
            Some(d) => (true, d),
            None => (false, format!("{} :: {} (fact state, strategy, query) combinations, {} fresh engines each: all {} answers equal every time", RULES, tried, repeats, repeats)),
        }
    })
}

pub fn witnesses() -> Vec<crate::W> {
    vec![
        ("c11_stale_memo_after_fact_change", c11_stale_memo_after_fact_change),
        ("c11_aggregate_differs_on_second_call", c11_aggregate_differs_on_second_call),
        ("c11_memo_search", c11_memo_search),
        ("c11_no_memo_search", c11_no_memo_search),
        ("c11_identical_fresh_runs_disagree", c11_identical_fresh_runs_disagree),
    ]
}
