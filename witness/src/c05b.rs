//! C05 (second part) — no text makes the backward-chaining parsers panic, hang or overflow the stack.
//!
//! Targets (public API only): `backward::expression::ExpressionParser::parse`, `backward::query::QueryParser::parse`,
//! `backward::grl_query::GRLQueryParser::{parse, parse_queries}` and `GRLParser::parse_rules` with the text embedded as a rule
//! condition.  Reference (from the property statement): every call returns a value or an error — a panic, a call that does not
//! return within 10 s, or a stack overflow is a violation.  Nothing is said about WHICH value is returned.
//!
//! * bounded search: every string of at most N tokens over the token alphabet below (multi-byte characters, both quotes, all
//!   operator spellings, parentheses, prefix operators), shortest first; every call under `catch_unwind`; a monitor thread reports
//!   a worker whose current input has not changed for 10 s as a hang.
//! * deep nesting: `(`*n a `)`*n, `(`*n a and `!`*n a, n in {32, 1000, 4000}: a stack overflow aborts the process, so each case runs
//!   in a CHILD process (this executable, filter `c05_deep_nesting_child`, case in the environment) on a thread with an 8 MiB stack
//!   (the default main-thread size).  Cases outside the property's quantifier (more than 4 KiB, or CLOSED bracket nesting above 32)
//!   are run for information only and never make the witness report REPRODUCED.
use rust_rule_engine::backward::expression::ExpressionParser;
use rust_rule_engine::backward::grl_query::GRLQueryParser;
use rust_rule_engine::backward::query::QueryParser;
use rust_rule_engine::GRLParser;
use std::sync::atomic::{AtomicBool, AtomicU64, Ordering};
use std::sync::{Arc, Mutex};
use std::time::{Duration, Instant};

// the alphabet of the task plus the keyword `true` (reaches the word-boundary check of the literal scanner) and a backslash
// (reaches the escape branch of the string scanner)
const TOKENS: [&str; 22] = [
    "a", "1", ".", "(", ")", "!", "&&", "||", "==", "!=", ">=", "<", "\"", "'", "?", " ", "é", "€", "-", "+", "true", "\\",
];
const HANG: Duration = Duration::from_secs(10);

struct Worker {
    seq: AtomicU64,
    cur: Mutex<String>,
    done: AtomicBool,
    bad: Mutex<Option<(usize, String)>>, // (token count, text handed to the parser)
}

/// all strings of 1..=max_len tokens, shortest first, split over one worker per first token.
/// `call(text)` must return normally; `wrap(s)` builds the text handed to the parser from the enumerated string.
fn search(max_len: usize, wrap: fn(&str) -> String, call: fn(&str)) -> (bool, String) {
    let prev = std::panic::take_hook();
    std::panic::set_hook(Box::new(|_| {}));
    let tried = Arc::new(AtomicU64::new(0));
    let workers: Vec<Arc<Worker>> = (0..TOKENS.len())
        .map(|_| Arc::new(Worker { seq: AtomicU64::new(0), cur: Mutex::new(String::new()), done: AtomicBool::new(false), bad: Mutex::new(None) }))
        .collect();
    for (k, w) in workers.iter().enumerate() {
        let w = w.clone();
        let tried = tried.clone();
        std::thread::Builder::new()
            .stack_size(8 << 20)
            .spawn(move || {
                'outer: for len in 1..=max_len {
                    // the len-1 tokens behind the fixed first token k are the base-|TOKENS| digits of c
                    let total = (TOKENS.len() as u64).pow((len - 1) as u32);
                    for c in 0..total {
                        let mut s = String::from(TOKENS[k]);
                        let mut d = c;
                        for _ in 1..len {
                            s.push_str(TOKENS[(d % TOKENS.len() as u64) as usize]);
                            d /= TOKENS.len() as u64;
                        }
                        let text = wrap(&s);
                        *w.cur.lock().unwrap() = text.clone();
                        w.seq.fetch_add(1, Ordering::SeqCst);
                        let t2 = text.clone();
                        let r = std::panic::catch_unwind(move || call(&t2));
                        tried.fetch_add(1, Ordering::Relaxed);
                        if r.is_err() {
                            *w.bad.lock().unwrap() = Some((len, text));
                            break 'outer;
                        }
                    }
                }
                w.done.store(true, Ordering::SeqCst);
            })
            .unwrap();
    }
    // monitor
    let mut last: Vec<(u64, Instant)> = workers.iter().map(|_| (0, Instant::now())).collect();
    let mut hang: Option<String> = None;
    'mon: loop {
        std::thread::sleep(Duration::from_millis(20));
        let mut all_done = true;
        for (k, w) in workers.iter().enumerate() {
            if w.done.load(Ordering::SeqCst) {
                continue;
            }
            all_done = false;
            let s = w.seq.load(Ordering::SeqCst);
            if s != last[k].0 {
                last[k] = (s, Instant::now());
            } else if last[k].1.elapsed() > HANG {
                hang = Some(w.cur.lock().unwrap().clone());
                break 'mon;
            }
        }
        if all_done {
            break;
        }
    }
    std::panic::set_hook(prev);
    if let Some(h) = hang {
        return (true, format!("did not return within {} s on input {:?}", HANG.as_secs(), h));
    }
    // deterministic choice: fewest tokens, then alphabet order of the first token
    let mut best: Option<(usize, usize, String)> = None;
    for (k, w) in workers.iter().enumerate() {
        if let Some((n, t)) = w.bad.lock().unwrap().clone() {
            if best.as_ref().map_or(true, |b| (n, k) < (b.0, b.1)) {
                best = Some((n, k, t));
            }
        }
    }
    match best {
        Some((_, _, t)) => (true, format!("panics on input {:?}", t)),
        None => (false, format!("{} inputs (all strings of <= {} tokens over {} tokens), no panic, no call above {} s", tried.load(Ordering::Relaxed), max_len, TOKENS.len(), HANG.as_secs())),
    }
}

fn plain(s: &str) -> String {
    s.to_string()
}
fn as_goal(s: &str) -> String {
    format!("query \"Q\" {{\n    goal: {}\n    strategy: depth-first\n}}", s)
}
fn as_when_and_name(s: &str) -> String {
    format!("query \"{}\" {{\n    goal: a == 1\n    when: {}\n    on-success: {{ a = {}; }}\n}}", s, s, s)
}
fn as_rule_condition(s: &str) -> String {
    format!("rule \"R\" salience 1 {{\n    when\n        {}\n    then\n        X.y = 1;\n}}", s)
}

fn call_expression(t: &str) {
    let _ = ExpressionParser::parse(t);
}
fn call_query(t: &str) {
    let _ = QueryParser::parse(t);
    let _ = QueryParser::parse(&format!("NOT {}", t));
}
fn call_grl_query(t: &str) {
    let _ = GRLQueryParser::parse(t);
    let _ = GRLQueryParser::parse_queries(t);
}
fn call_grl_rules(t: &str) {
    let _ = GRLParser::parse_rules(t);
}

fn c05_bc_expression_parser_search() -> (bool, String) {
    let (b, d) = search(crate::bound(5, 6), plain, call_expression);
    (b, format!("ExpressionParser::parse {}", d))
}
fn c05_bc_query_parser_search() -> (bool, String) {
    let (b, d) = search(crate::bound(5, 6), plain, call_query);
    (b, format!("QueryParser::parse(s) / parse(\"NOT \"+s) {}", d))
}
fn c05_grl_query_parser_goal_search() -> (bool, String) {
    let (b, d) = search(crate::bound(3, 4), as_goal, call_grl_query);
    (b, format!("GRLQueryParser::parse / parse_queries, text as the goal: {}", d))
}
fn c05_grl_query_parser_name_when_action_search() -> (bool, String) {
    let (b, d) = search(crate::bound(3, 4), as_when_and_name, call_grl_query);
    (b, format!("GRLQueryParser::parse / parse_queries, text as name, when: and action value: {}", d))
}
fn c05_grl_rule_condition_search() -> (bool, String) {
    let (b, d) = search(crate::bound(3, 4), as_rule_condition, call_grl_rules);
    (b, format!("GRLParser::parse_rules, text as the rule condition: {}", d))
}

// ---------------------------------------------------------------------------------------------------------------------------
// deep nesting, in a child process
// ---------------------------------------------------------------------------------------------------------------------------
const CHILD: &str = "c05_deep_nesting_child";
const CASE_ENV: &str = "VERIF_C05B_CASE";

fn deep_input(shape: &str, n: usize) -> String {
    match shape {
        "closed" => format!("{}a{}", "(".repeat(n), ")".repeat(n)),
        "open" => format!("{}a", "(".repeat(n)),
        "not" => format!("{}a", "!".repeat(n)),
        // a chain of prefix operators in front of a MALFORMED operand (every alternative the parser tries fails)
        "not_exists_empty" => format!("{}exists()", "!".repeat(n)),
        "not_forall_open" => format!("{}forall(", "!".repeat(n)),
        "not_accumulate_empty" => format!("{}accumulate()", "!".repeat(n)),
        "not_dangling_operator" => format!("{}a ==", "!".repeat(n)),
        _ => String::new(),
    }
}
fn deep_text(parser: &str, shape: &str, n: usize) -> String {
    let s = deep_input(shape, n);
    match parser {
        "grl_query" => format!("query \"Q\" {{\n    goal: {}\n}}", s),
        "grl_rule" => format!("rule \"R\" {{\n    when\n        {}\n    then\n        X.y = 1;\n}}", s),
        _ => s,
    }
}
fn deep_call(parser: &str, text: &str) {
    match parser {
        "expression" => call_expression(text),
        "query" => {
            let _ = QueryParser::parse(text);
        }
        "grl_query" => call_grl_query(text),
        "grl_rule" => call_grl_rules(text),
        _ => {}
    }
}

/// entry used by the child process only (case in the environment); in a normal run it does nothing
fn c05_deep_nesting_child() -> (bool, String) {
    let case = match std::env::var(CASE_ENV) {
        Ok(c) => c,
        Err(_) => return (false, "helper entry of c05_deep_nesting_*: does nothing unless started as a child process".to_string()),
    };
    let parts: Vec<String> = case.split(':').map(|x| x.to_string()).collect();
    let (parser, shape, n) = (parts[0].clone(), parts[1].clone(), parts[2].parse::<usize>().unwrap_or(0));
    let text = deep_text(&parser, &shape, n);
    let (tx, rx) = std::sync::mpsc::channel();
    std::panic::set_hook(Box::new(|_| {}));
    std::thread::Builder::new()
        .stack_size(8 << 20)
        .spawn(move || {
            let r = std::panic::catch_unwind(move || deep_call(&parser, &text));
            let _ = tx.send(r.is_ok());
        })
        .unwrap();
    match rx.recv_timeout(HANG) {
        Ok(true) => (false, format!("returned: {}", case)),
        Ok(false) => (true, format!("panicked: {}", case)),
        Err(_) => (true, format!("did not return within {} s: {}", HANG.as_secs(), case)),
    }
}

fn run_child(case: &str) -> Result<(), String> {
    let exe = std::env::current_exe().map_err(|e| format!("current_exe: {e}"))?;
    let out = std::process::Command::new(exe).arg(CHILD).env(CASE_ENV, case).output().map_err(|e| format!("spawn: {e}"))?;
    let so = String::from_utf8_lossy(&out.stdout);
    if so.lines().any(|l| l.starts_with(&format!("NOT-REPRODUCED {} returned", CHILD))) {
        return Ok(());
    }
    if let Some(l) = so.lines().find(|l| l.starts_with("REPRODUCED")) {
        return Err(l.to_string());
    }
    let se = String::from_utf8_lossy(&out.stderr);
    let why = if se.contains("overflowed its stack") { "STACK OVERFLOW (process aborted)".to_string() } else { format!("child died: status {:?} {}", out.status, se.lines().last().unwrap_or("")) };
    Err(why)
}

fn deep(parser: &'static str) -> (bool, String) {
    // (shape, n, inside the property's quantifier?)   4 KiB limit; closed bracket nesting <= 32; prefix chains up to the full length
    let cases: [(&str, usize, bool); 9] = [
        ("closed", 32, true),
        ("open", 32, true),
        ("not", 32, true),
        ("open", 1000, true),
        ("not", 1000, true),
        ("open", 4000, true),
        ("not", 4000, true),
        ("closed", 1000, false),
        ("closed", 4000, false),
    ];
    let mut bad_in: Option<String> = None;
    let mut bad_out = Vec::new();
    let mut ran = 0;
    for (shape, n, inside) in cases {
        if bad_in.is_some() && inside {
            continue; // one in-scope failure is enough (a hang costs 10 s each)
        }
        if bad_in.is_some() || (!inside && !bad_out.is_empty()) {
            continue;
        }
        ran += 1;
        let case = format!("{}:{}:{}", parser, shape, n);
        if let Err(e) = run_child(&case) {
            let d = format!("{} on {} embedded for `{}` (child process, 8 MiB stack)", e, describe(shape, n), parser);
            if inside {
                bad_in = Some(d);
            } else {
                bad_out.push(d);
            }
        }
    }
    let info = if bad_out.is_empty() { String::new() } else { format!("; OUTSIDE the quantifier (information only): {}", bad_out.join("; ")) };
    match bad_in {
        Some(d) => (true, format!("{}{}", d, info)),
        None => (false, format!("{}: {} deep-nesting inputs in child processes (n = 32, 1000, 4000; shapes (^n a )^n, (^n a, !^n a){}", parser, ran, info)),
    }
}
fn describe(shape: &str, n: usize) -> String {
    match shape {
        "closed" => format!("\"(\"*{n} + \"a\" + \")\"*{n}"),
        "open" => format!("\"(\"*{n} + \"a\""),
        _ => format!("\"!\"*{n} + \"a\""),
    }
}
/// short chains of `!` (40: far below the size at which the known super-linear cost of the rule parser shows) in front of malformed operands:
/// a retry per `!` doubles the work per level, so 40 levels never finish; 10 s watchdog per input in a child process
fn c05_not_chain_malformed_operand_grl_rule() -> (bool, String) {
    let shapes = ["not_exists_empty", "not_forall_open", "not_accumulate_empty", "not_dangling_operator"];
    for sh in shapes {
        let case = format!("grl_rule:{}:40", sh);
        if let Err(e) = run_child(&case) {
            return (true, format!("{} on `{}` as the `when` clause of a GRL rule (GRLParser::parse_rules, child process, 10 s watchdog)", e, deep_input(sh, 40)));
        }
    }
    (false, format!("{} inputs `!`*40 + malformed operand (exists(), forall(, accumulate(), a ==) return within the watchdog", shapes.len()))
}
fn c05_deep_nesting_expression_parser() -> (bool, String) {
    deep("expression")
}
fn c05_deep_nesting_query_parser() -> (bool, String) {
    deep("query")
}
fn c05_deep_nesting_grl_query_parser() -> (bool, String) {
    deep("grl_query")
}
fn c05_deep_nesting_grl_rule_condition() -> (bool, String) {
    deep("grl_rule")
}

pub fn witnesses() -> Vec<crate::W> {
    vec![
        ("c05_bc_expression_parser_search", c05_bc_expression_parser_search),
        ("c05_bc_query_parser_search", c05_bc_query_parser_search),
        ("c05_grl_query_parser_goal_search", c05_grl_query_parser_goal_search),
        ("c05_grl_query_parser_name_when_action_search", c05_grl_query_parser_name_when_action_search),
        ("c05_grl_rule_condition_search", c05_grl_rule_condition_search),
        ("c05_deep_nesting_child", c05_deep_nesting_child),
        ("c05_deep_nesting_expression_parser", c05_deep_nesting_expression_parser),
        ("c05_deep_nesting_query_parser", c05_deep_nesting_query_parser),
        ("c05_deep_nesting_grl_query_parser", c05_deep_nesting_grl_query_parser),
        ("c05_deep_nesting_grl_rule_condition", c05_deep_nesting_grl_rule_condition),
        ("c05_not_chain_malformed_operand_grl_rule", c05_not_chain_malformed_operand_grl_rule),
    ]
}
