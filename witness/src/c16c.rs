//! C16, last clause: "the backward-chaining conclusion index proposes every enabled rule that assigns the goal's field" — the part
//! that decides WHAT the goal's field is (ConclusionIndex::extract_field_from_goal: operator search + byte slicing + trim) and the
//! caller BackwardEngine::find_candidate_rules (index lookup + linear fallback).  The add/remove histories are in alpha_index.rs
//! (c16_conclusion_index_search, goals `F == true` only).  Register in main.rs with `mod c16c;` / `all.extend(c16c::witnesses());`.
//!
//!   c16_goal_field_split           ConclusionIndex::find_candidates on every goal text `F<blanks>OP<blanks>LITERAL`, F in {User.IsVIP, a.b.c,
//!                                  x, Total, Ünï.ß}, OP every comparison operator the index searches for, 0/1/2 blanks, LITERAL from a list
//!                                  that includes quoted texts containing operator characters ("a>=b", "x == y", "<none>", "1.5>=x", ..):
//!                                  an index holding one enabled rule per field must propose the rule that assigns F (reference: scan of
//!                                  the rule actions for Set{field == F}).  Every lookup runs under catch_unwind (a panic is a finding).
//!   c16_goal_field_engine          the same goals through BackwardEngine::query on a knowledge base whose rule `when Ready == true then
//!                                  F = LITERAL-value`: the goal must be provable (index path or linear fallback) whenever a plain goal
//!                                  `F OP simple-literal` with the same comparison outcome is provable
//!   c16_goal_field_any_text        find_candidates on all texts of <= 4 symbols over {a . = ! > < blank " é}: never panics
use rust_rule_engine::backward::{BackwardEngine, ConclusionIndex};
use rust_rule_engine::engine::rule::{Condition, ConditionGroup, Rule};
use rust_rule_engine::types::{ActionType, Operator, Value};
use rust_rule_engine::{Facts, KnowledgeBase};
use std::panic::{catch_unwind, AssertUnwindSafe};

const FIELDS: [&str; 5] = ["User.IsVIP", "a.b.c", "x", "Total", "Ünï.ß"];
const OPS: [&str; 8] = ["==", "!=", ">=", "<=", ">", "<", " contains ", " matches "];
const LITERALS: [&str; 12] = [
    "true", "5", "1.5", "\"VIP\"", "\"a>=b\"", "\"x == y\"", "\"<none>\"", "\"a!=b\"", "\"1.5>=x\"", "\"p contains q\"", "\"a<b\"", "\"=\"",
];

fn set_rule(name: &str, field: &str, value: Value) -> Rule {
    let cond = ConditionGroup::Single(Condition::new("Ready".to_string(), Operator::Equal, Value::Boolean(true)));
    Rule::new(name.to_string(), cond, vec![ActionType::Set { field: field.to_string(), value }])
}

fn goals_for(field: &str) -> Vec<String> {
    let mut out = Vec::new();
    for op in OPS.iter() {
        let word = op.starts_with(' ');
        for lit in LITERALS.iter() {
            for blanks in 0..3usize {
                let b = " ".repeat(blanks);
                // the word operators carry their own blanks; extra blanks go around them
                let _ = word;
                out.push(format!("{}{}{}{}{}", field, b, op, b, lit));
            }
        }
    }
    out
}

/// reference: the rules whose actions contain Set{field == F}
fn c16_goal_field_split() -> (bool, String) {
    let mut idx = ConclusionIndex::new();
    for (k, f) in FIELDS.iter().enumerate() {
        idx.add_rule(&set_rule(&format!("R{}", k), f, Value::Boolean(true)));
    }
    let mut tried = 0u64;
    let mut bad: Vec<String> = Vec::new();
    for (k, f) in FIELDS.iter().enumerate() {
        let expect = format!("R{}", k);
        for g in goals_for(f) {
            tried += 1;
            match catch_unwind(AssertUnwindSafe(|| idx.find_candidates(&g))) {
                Err(_) => return (true, format!("find_candidates(`{}`) panicked", g)),
                Ok(c) => {
                    if !c.contains(&expect) {
                        let mut v: Vec<_> = c.into_iter().collect();
                        v.sort();
                        bad.push(format!("goal `{}`: rule {} (Set {}) not proposed, candidates {:?}", g, expect, f, v));
                    }
                }
            }
        }
    }
    if bad.is_empty() {
        (false, format!("{} goals `F op literal` propose the rule assigning F", tried))
    } else {
        (true, format!("{} of {} goals miss the rule assigning the goal's field; first: {}", bad.len(), tried, bad[0]))
    }
}

fn engine_for(field: &str, value: Value) -> BackwardEngine {
    let kb = KnowledgeBase::new("c16c");
    // decoys first: rules assigning OTHER fields, so that a wrong split has something else to propose
    let _ = kb.add_rule(set_rule("Decoy1", "Other.Field", Value::Boolean(true)));
    let _ = kb.add_rule(set_rule("Decoy2", "y", Value::Boolean(true)));
    let _ = kb.add_rule(set_rule("Target", field, value));
    BackwardEngine::new(kb)
}

/// the goal `F == LIT` with the rule setting F to the literal's value: provable iff the rule is proposed and fired
fn c16_goal_field_engine() -> (bool, String) {
    let mut tried = 0u64;
    let mut bad: Vec<String> = Vec::new();
    let lits: [(&str, Value); 7] = [
        ("true", Value::Boolean(true)),
        ("\"VIP\"", Value::String("VIP".to_string())),
        ("\"a>=b\"", Value::String("a>=b".to_string())),
        ("\"x == y\"", Value::String("x == y".to_string())),
        ("\"<none>\"", Value::String("<none>".to_string())),
        ("\"1.5>=x\"", Value::String("1.5>=x".to_string())),
        ("\"p contains q\"", Value::String("p contains q".to_string())),
    ];
    for f in ["User.IsVIP", "a.b.c", "x", "Total"].iter() {
        for (lit, val) in lits.iter() {
            // control: the same rule / facts with the plain literal text must be provable, otherwise the evaluator (not the index) is
            // what refuses the goal and the case says nothing about C16
            for (op, want) in [("==", true)].iter() {
                for blanks in 0..2usize {
                    let b = " ".repeat(blanks);
                    let goal = format!("{}{}{}{}{}", f, b, op, b, lit);
                    tried += 1;
                    let mut facts = Facts::new();
                    facts.set("Ready", Value::Boolean(true));
                    let mut eng = engine_for(f, val.clone());
                    let got = match catch_unwind(AssertUnwindSafe(|| eng.query(&goal, &mut facts))) {
                        Err(_) => return (true, format!("BackwardEngine::query(`{}`) panicked", goal)),
                        Ok(Err(_)) => continue, // the query language refuses the text: not a goal
                        Ok(Ok(r)) => r.provable,
                    };
                    // reference: a fresh linear scan finds Target (it assigns F); firing it sets F = val, so `F == lit` holds and
                    // `F != lit` does not
                    if got != *want {
                        bad.push(format!("query `{}` with rule `when Ready == true then {} = {}`: provable = {}, expected {}", goal, f, lit, got, want));
                    }
                }
            }
        }
    }
    if bad.is_empty() {
        (false, format!("{} queries answered as a linear scan of the rule actions would", tried))
    } else {
        (true, format!("{} of {} queries differ; first: {}", bad.len(), tried, bad[0]))
    }
}

fn c16_goal_field_any_text() -> (bool, String) {
    let alphabet = ["a", ".", "=", "!", ">", "<", " ", "\"", "é"];
    let mut idx = ConclusionIndex::new();
    idx.add_rule(&set_rule("R", "a.a", Value::Boolean(true)));
    idx.add_rule(&set_rule("S", "é.a", Value::Boolean(true)));
    let mut tried = 0u64;
    let mut texts: Vec<String> = vec![String::new()];
    let mut frontier: Vec<String> = vec![String::new()];
    for _ in 0..4 {
        let mut next = Vec::new();
        for t in &frontier {
            for s in alphabet.iter() {
                next.push(format!("{}{}", t, s));
            }
        }
        texts.extend(next.iter().cloned());
        frontier = next;
    }
    for t in &texts {
        tried += 1;
        if catch_unwind(AssertUnwindSafe(|| idx.find_candidates(t))).is_err() {
            return (true, format!("find_candidates({:?}) panicked", t));
        }
    }
    (false, format!("{} texts: no panic", tried))
}

pub fn witnesses() -> Vec<crate::W> {
    vec![
        ("c16_goal_field_split", c16_goal_field_split),
        ("c16_goal_field_engine", c16_goal_field_engine),
        ("c16_goal_field_any_text", c16_goal_field_any_text),
    ]
}
