//! C16, last clause: "the backward-chaining conclusion index proposes every enabled rule that assigns the goal's field" — the part
//! that decides WHAT the goal's field is (ConclusionIndex::extract_field_from_goal: operator search + byte slicing + trim) and the
//! caller BackwardEngine::find_candidate_rules (index lookup + linear fallback).  The add/remove histories are in alpha_index.rs
//! (c16_conclusion_index_search, goals `F == true` only).  Register in main.rs with `mod c16c;` / `all.extend(c16c::witnesses());`.
//!
//!   c16_goal_field_split           ConclusionIndex::find_candidates on every goal text `F<blanks>OP<blanks>LITERAL`, F in {User.IsVIP, a.b.c,
//!                                  x, Total, Ünï.ß}, OP every comparison operator the index searches for, 0/1/2 blanks, LITERAL from a list
//!                                  that includes quoted texts containing operator characters ("a>=b", "x == y", "<none>", "1.5>=x", ..):
//!                                  an index holding one enabled rule per field must propose the rule that assigns F (reference: scan of
//!                                  the rule actions for Set{field == F}).  Every lookup runs under catch_unwind (a panic is a finding).
//!   c16_goal_field_engine          the same split through BackwardEngine::query: rule Target `when Ready == true then F = V` plus a decoy rule
//!                                  assigning the text of a proper prefix of the goal (every prefix longer than F): the goal must stay
//!                                  provable (it is with Target alone).  Without the decoy the engine's linear fallback hides a wrong split.
//!   c16_goal_field_fallback_scan   an engine built on an empty knowledge base (its index lists nothing), rules added afterwards: only the
//!                                  linear scan of find_candidate_rules can propose them; the goal must be provable
//!   c16_goal_field_any_text        find_candidates on all texts of <= 4 symbols over {a . = ! > < blank " é}: never panics
use rust_rule_engine::backward::{BackwardEngine, ConclusionIndex};
use rust_rule_engine::engine::rule::{Condition, ConditionGroup, Rule};
use rust_rule_engine::types::{ActionType, Operator, Value};
use rust_rule_engine::{Facts, KnowledgeBase};
use std::panic::{catch_unwind, AssertUnwindSafe};

const FIELDS: [&str; 5] = ["User.IsVIP", "a.b.c", "x", "Total", "Ünï.ß"];
const OPS: [&str; 8] = ["==", "!=", ">=", "<=", ">", "<", " contains ", " matches "];
const LITERALS: [&str; 12] = [
    "true", "5", "1.5", "\"VIP\"", "\"a>=b\"", "\"x == y\"", "\"<none>\"", "\"a!=b\"", "\"1.5>=x\"", "\"p contains q\"", "\"a<b\"", "\"=\"",
];

fn set_rule(name: &str, field: &str, value: Value) -> Rule {
    let cond = ConditionGroup::Single(Condition::new("Ready".to_string(), Operator::Equal, Value::Boolean(true)));
    Rule::new(name.to_string(), cond, vec![ActionType::Set { field: field.to_string(), value }])
}

fn goals_for(field: &str) -> Vec<String> {
    let mut out = Vec::new();
    for op in OPS.iter() {
        for lit in LITERALS.iter() {
            for blanks in 0..3usize {
                // (the word operators carry their own blanks; the extra blanks go around them)
                let b = " ".repeat(blanks);
                out.push(format!("{}{}{}{}{}", field, b, op, b, lit));
            }
        }
    }
    out
}

/// reference: the rules whose actions contain Set{field == F}
fn c16_goal_field_split() -> (bool, String) {
    let mut idx = ConclusionIndex::new();
    for (k, f) in FIELDS.iter().enumerate() {
        idx.add_rule(&set_rule(&format!("R{}", k), f, Value::Boolean(true)));
    }
    let mut tried = 0u64;
    let mut bad: Vec<String> = Vec::new();
    for (k, f) in FIELDS.iter().enumerate() {
        let expect = format!("R{}", k);
        for g in goals_for(f) {
            tried += 1;
            match catch_unwind(AssertUnwindSafe(|| idx.find_candidates(&g))) {
                Err(_) => return (true, format!("find_candidates(`{}`) panicked", g)),
                Ok(c) => {
                    if !c.contains(&expect) {
                        let mut v: Vec<_> = c.into_iter().collect();
                        v.sort();
                        bad.push(format!("goal `{}`: rule {} (Set {}) not proposed, candidates {:?}", g, expect, f, v));
                    }
                }
            }
        }
    }
    if bad.is_empty() {
        (false, format!("{} goals `F op literal` propose the rule assigning F", tried))
    } else {
        (true, format!("{} of {} goals miss the rule assigning the goal's field; first: {}", bad.len(), tried, bad[0]))
    }
}

/// The same split seen through BackwardEngine::query.  A wrong split is normally hidden by the engine's linear fallback (it runs when the
/// index answer names no rule of the knowledge base), so every case also carries a DECOY rule that assigns the text of a proper prefix
/// of the goal longer than the field (all such prefixes are tried: whatever wrong cut the index makes, one decoy is listed under it).
/// Rule `Target: when Ready == true then F = V` makes the goal true; reference: a scan of the rule actions finds Target (it assigns the
/// goal's field), so the goal is provable.  Control per case: the goal must be provable on a knowledge base holding Target alone
/// (otherwise the evaluator, not the index, refuses the text and the case says nothing about C16).
fn c16_goal_field_engine() -> (bool, String) {
    let mut tried = 0u64;
    let mut bad: Vec<String> = Vec::new();
    // (operator, literal text, value Target assigns); literals avoid `>=`, `<=`, `==`, `!=` so that the goal evaluator of search.rs
    // (which has its own operator search) reads the goal as intended
    let cases: [(&str, &str, &str); 6] = [
        (" contains ", "\"a<b\"", "zza<bzz"),
        (" contains ", "\"<none>\"", "x<none>y"),
        (" matches ", "\"a<b\"", "zza<bzz"),
        (" contains ", "\"p>q\"", "p>q"),
        ("==", "\"a<b\"", "a<b"),
        ("==", "\"VIP\"", "VIP"),
    ];
    let run = |rules: Vec<Rule>, goal: &str| -> Option<bool> {
        let kb = KnowledgeBase::new("c16c");
        for r in rules {
            let _ = kb.add_rule(r);
        }
        let mut eng = BackwardEngine::new(kb);
        let mut facts = Facts::new();
        facts.set("Ready", Value::Boolean(true));
        match catch_unwind(AssertUnwindSafe(|| eng.query(goal, &mut facts))) {
            Err(_) => Some(false),
            Ok(Err(_)) => None,
            Ok(Ok(r)) => Some(r.provable),
        }
    };
    for f in ["User.IsVIP", "a.b.c", "x", "Total"].iter() {
        for (op, lit, val) in cases.iter() {
            for blanks in 0..2usize {
                let b = " ".repeat(blanks);
                let goal = format!("{}{}{}{}{}", f, b, op, b, lit);
                let target = || set_rule("Target", f, Value::String(val.to_string()));
                if run(vec![target()], &goal) != Some(true) {
                    continue; // control failed: not a C16 case
                }
                for cut in f.len() + 1..goal.len() {
                    if !goal.is_char_boundary(cut) {
                        continue;
                    }
                    let decoy_field = goal[..cut].trim();
                    if decoy_field == *f {
                        continue;
                    }
                    tried += 1;
                    let decoy = set_rule("Decoy", decoy_field, Value::Boolean(true));
                    if run(vec![decoy, target()], &goal) != Some(true) {
                        bad.push(format!(
                            "rules Decoy: Set `{}`, Target: Set {} = \"{}\" (both `when Ready == true`), fact Ready = true: query `{}` is not provable; with Target alone it is",
                            decoy_field, f, val, goal
                        ));
                    }
                }
            }
        }
    }
    if bad.is_empty() {
        (false, format!("{} queries with a decoy rule answered as a scan of the rule actions would", tried))
    } else {
        (true, format!("{} of {} queries differ; first: {}", bad.len(), tried, bad[0]))
    }
}

/// The linear fallback of BackwardEngine::find_candidate_rules: an engine built on an EMPTY knowledge base has an index that lists
/// nothing; rules added to the knowledge base afterwards (through engine.knowledge_base(), no rebuild_index) can only be proposed by the
/// scan of the rule actions.  Reference: that scan finds Target (it assigns the goal's field), so the goal is provable; an enabled and a
/// disabled decoy for other fields must not matter.  (An index that is stale but NOT empty is the known staleness: not claimed.)
fn c16_goal_field_fallback_scan() -> (bool, String) {
    let mut tried = 0u64;
    for f in ["User.IsVIP", "a.b.c", "x", "Total"].iter() {
        for (op, lit, val) in [("==", "\"VIP\"", "VIP"), (" contains ", "\"a<b\"", "zza<bzz"), ("==", "true", "")].iter() {
            for blanks in 0..2usize {
                let b = " ".repeat(blanks);
                let goal = format!("{}{}{}{}{}", f, b, op, b, lit);
                let value = if *lit == "true" { Value::Boolean(true) } else { Value::String(val.to_string()) };
                let mut eng = BackwardEngine::new(KnowledgeBase::new("c16c-late"));
                let mut off = set_rule("DecoyOff", "Other.Off", Value::Boolean(true));
                off.enabled = false;
                let _ = eng.knowledge_base().add_rule(set_rule("DecoyOn", "Other.On", Value::Boolean(true)));
                let _ = eng.knowledge_base().add_rule(off);
                let _ = eng.knowledge_base().add_rule(set_rule("Target", f, value));
                let mut facts = Facts::new();
                facts.set("Ready", Value::Boolean(true));
                tried += 1;
                match catch_unwind(AssertUnwindSafe(|| eng.query(&goal, &mut facts))) {
                    Err(_) => return (true, format!("BackwardEngine::query(`{}`) panicked", goal)),
                    Ok(Err(_)) => continue,
                    Ok(Ok(r)) => {
                        if !r.provable {
                            return (
                                true,
                                format!(
                                    "engine built on an empty knowledge base, then rules DecoyOn (Set Other.On), DecoyOff (disabled, Set Other.Off), Target (Set {} = {}) added, fact Ready = true: query `{}` is not provable although a scan of the rule actions finds Target",
                                    f, lit, goal
                                ),
                            );
                        }
                    }
                }
            }
        }
    }
    (false, format!("{} queries on an engine whose index lists nothing are answered by the scan", tried))
}

fn c16_goal_field_any_text() -> (bool, String) {
    let alphabet = ["a", ".", "=", "!", ">", "<", " ", "\"", "é"];
    let mut idx = ConclusionIndex::new();
    idx.add_rule(&set_rule("R", "a.a", Value::Boolean(true)));
    idx.add_rule(&set_rule("S", "é.a", Value::Boolean(true)));
    let mut tried = 0u64;
    let mut texts: Vec<String> = vec![String::new()];
    let mut frontier: Vec<String> = vec![String::new()];
    for _ in 0..4 {
        let mut next = Vec::new();
        for t in &frontier {
            for s in alphabet.iter() {
                next.push(format!("{}{}", t, s));
            }
        }
        texts.extend(next.iter().cloned());
        frontier = next;
    }
    for t in &texts {
        tried += 1;
        if catch_unwind(AssertUnwindSafe(|| idx.find_candidates(t))).is_err() {
            return (true, format!("find_candidates({:?}) panicked", t));
        }
    }
    (false, format!("{} texts: no panic", tried))
}

pub fn witnesses() -> Vec<crate::W> {
    vec![
        ("c16_goal_field_split", c16_goal_field_split),
        ("c16_goal_field_engine", c16_goal_field_engine),
        ("c16_goal_field_fallback_scan", c16_goal_field_fallback_scan),
        ("c16_goal_field_any_text", c16_goal_field_any_text),
    ]
}
