//! C06 witnesses (unit working_memory): concrete histories on which the real crate departs from the statement.
//! Not wired into main.rs by the unit author (main.rs is outside the unit's files): add `mod working_memory;` and
//! `all.extend(working_memory::witnesses());` there.
use rust_rule_engine::rete::AlphaNode;
use rust_rule_engine::rete::network::{ReteUlNode, TypedReteUlRule};
use rust_rule_engine::rete::propagation::IncrementalEngine;
use rust_rule_engine::rete::working_memory::WorkingMemory;
use rust_rule_engine::rete::TypedFacts;
use std::sync::{Arc, Mutex};

fn adult_rule(no_loop: bool, seen: Arc<Mutex<Vec<String>>>) -> TypedReteUlRule {
    TypedReteUlRule {
        name: "IsAdult".to_string(),
        node: ReteUlNode::UlAlpha(AlphaNode { field: "Person.age".to_string(), operator: ">".to_string(), value: "18".to_string() }),
        priority: 0,
        no_loop,
        // the action records the age it is shown at the moment of firing
        action: Arc::new(move |facts, _| {
            let age = facts.get("Person.age").map(|v| format!("{:?}", v)).unwrap_or_else(|| "absent".into());
            seen.lock().unwrap().push(age);
        }),
    }
}

/// sentence 1: insert a fact that satisfies the rule (activation created), update it so that it no longer does, fire_all
fn c06_stale_activation_fires_after_update() -> (bool, String) {
    let seen = Arc::new(Mutex::new(Vec::new()));
    let mut e = IncrementalEngine::new();
    e.add_rule(adult_rule(true, seen.clone()), vec!["Person".to_string()]);
    let mut p = TypedFacts::new();
    p.set("age", 25i64);
    let h = e.insert("Person".to_string(), p);
    let mut q = TypedFacts::new();
    q.set("age", 10i64);
    e.update(h, q).unwrap();
    let fired = e.fire_all();
    let seen = seen.lock().unwrap().clone();
    (
        !fired.is_empty(),
        format!(
            "rule IsAdult: Person.age > 18 (no-loop); h = insert Person{{age:25}}; update(h, Person{{age:10}}); fire_all() = {:?}, ages seen by the action = {:?} (expected: no firing, the only live fact has age 10)",
            fired, seen
        ),
    )
}

/// sentence 1, second half: insert a satisfying fact (activation created), retract it, fire_all — the liveness gate must skip it
fn c06_retracted_fact_fires() -> (bool, String) {
    let seen = Arc::new(Mutex::new(Vec::new()));
    let mut e = IncrementalEngine::new();
    e.add_rule(adult_rule(true, seen.clone()), vec!["Person".to_string()]);
    let mut p = TypedFacts::new();
    p.set("age", 25i64);
    let h = e.insert("Person".to_string(), p);
    e.retract(h).unwrap();
    let fired = e.fire_all();
    (!fired.is_empty(), format!("h = insert Person{{age:25}}; retract(h); fire_all() = {:?} (expected [])", fired))
}

/// third sentence, outside the quantifier (insert_from_stream): a stream fact is registered under the stream name, not under its fact_type
#[allow(unused)]
fn c06_stream_fact_not_listed_under_its_fact_type() -> (bool, String) {
    use rust_rule_engine::streaming::event::StreamEvent;
    let mut wm = WorkingMemory::new();
    let ev = StreamEvent::new("Temperature", std::collections::HashMap::new(), "probe");
    let h = wm.insert_from_stream("sensors".to_string(), ev);
    let ft = wm.get(&h).map(|f| f.fact_type.clone()).unwrap_or_default();
    let under_type = wm.get_by_type(&ft).len();
    let under_stream = wm.get_by_type("sensors").len();
    (
        under_type == 0,
        format!("h = insert_from_stream(\"sensors\", event of type \"Temperature\"): get(h).fact_type = {:?}, get_by_type({:?}).len() = {}, get_by_type(\"sensors\").len() = {}", ft, ft, under_type, under_stream),
    )
}

pub fn witnesses() -> Vec<crate::W> {
    vec![
        ("c06_stale_activation_fires_after_update", c06_stale_activation_fires_after_update),
        ("c06_retracted_fact_fires", c06_retracted_fact_fires),
        ("c06_stream_fact_not_listed_under_its_fact_type", c06_stream_fact_not_listed_under_its_fact_type),
    ]
}
