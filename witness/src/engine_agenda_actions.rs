//! C02 witnesses for the plumbing between focus histories and AgendaManager::set_focus (unit engine_agenda_actions proves it on
//! src/engine/engine.rs + src/engine/workflow.rs).  Wire into main.rs with `mod engine_agenda_actions;` +
//! `all.extend(engine_agenda_actions::witnesses());`.
//! Bounded enumeration of focus histories (set / activate / pop / clear focus, execute, execute_with_callback, execute_workflow_step)
//! over one small rule set; the REFERENCE is the property statement: a rule fires only while its agenda group is the focused one, the
//! focused group is the one the history (direct calls and ActivateAgendaGroup actions, in order) puts on top of the focus stack, and a
//! lock-on-active rule fires at most once per activation of its group (MAIN carries one initial activation).
use rust_rule_engine::{ActionType, Condition, ConditionGroup, Facts, KnowledgeBase, Operator, Rule, RustRuleEngine, Value};
use std::collections::HashMap;
use std::sync::{Arc, Mutex};

fn always() -> ConditionGroup {
    ConditionGroup::single(Condition::new("go".to_string(), Operator::Equal, Value::Boolean(true)))
}
fn log_action(name: &str) -> ActionType {
    let mut params = HashMap::new();
    params.insert("name".to_string(), Value::String(name.to_string()));
    ActionType::Custom { action_type: "note".to_string(), params }
}

#[derive(Clone, Copy, Debug, PartialEq)]
enum Op {
    SetFocus(&'static str),
    Activate(&'static str),
    Pop,
    Clear,
    Exec,
    ExecCb,
    Step(&'static str),
}

/// (name, agenda group, lock-on-active, group it activates)
const RULES: [(&str, &str, bool, Option<&str>); 5] = [
    ("M", "MAIN", true, None),      // salience 20
    ("A", "MAIN", false, Some("G")), // salience 10: ActivateAgendaGroup G
    ("R", "G", true, None),         // salience 0
    ("B", "H", false, Some("G")),   // salience 5: ActivateAgendaGroup G from group H
    ("S", "H", true, None),         // salience 0
];

fn build() -> (RustRuleEngine, Arc<Mutex<Vec<String>>>) {
    let kb = KnowledgeBase::new("kb");
    for (name, group, lock, act) in RULES.iter() {
        let mut actions = vec![log_action(name)];
        if let Some(g) = act {
            actions.push(ActionType::ActivateAgendaGroup { group: g.to_string() });
        }
        let sal = match *name { "M" => 20, "A" => 10, "B" => 5, _ => 0 };
        let mut r = Rule::new(name.to_string(), always(), actions).with_salience(sal).with_lock_on_active(*lock);
        if *group != "MAIN" {
            r = r.with_agenda_group(group.to_string());
        }
        kb.add_rule(r).unwrap();
    }
    let mut engine = RustRuleEngine::new(kb);
    let log: Arc<Mutex<Vec<String>>> = Arc::new(Mutex::new(vec![]));
    let l2 = log.clone();
    engine.register_action_handler("note", move |params, _| {
        if let Some(Value::String(s)) = params.get("name") {
            l2.lock().unwrap().push(s.clone());
        }
        Ok(())
    });
    (engine, log)
}

struct Model {
    stack: Vec<String>,
    activations: HashMap<String, usize>,
    firings: HashMap<String, usize>,
}
impl Model {
    fn new() -> Self {
        let mut activations = HashMap::new();
        activations.insert("MAIN".to_string(), 1); // the initial focus
        Model { stack: vec!["MAIN".to_string()], activations, firings: HashMap::new() }
    }
    fn top(&self) -> &str {
        self.stack.last().unwrap()
    }
    fn activate(&mut self, g: &str) {
        self.stack.retain(|x| x != g);
        self.stack.push(g.to_string());
        *self.activations.entry(g.to_string()).or_insert(0) += 1;
    }
    /// replays the firings of one execute call; Err(text) on the first firing the statement forbids
    fn replay(&mut self, fired: &[String]) -> Result<(), String> {
        for name in fired {
            let (_, group, lock, act) = RULES.iter().find(|r| r.0 == name.as_str()).unwrap();
            if *group != self.top() {
                return Err(format!("rule {} of group {} fired while the focused group was {}", name, group, self.top()));
            }
            let n = self.firings.entry(name.clone()).or_insert(0);
            *n += 1;
            if *lock && *n > *self.activations.get(*group).unwrap_or(&0) {
                return Err(format!(
                    "lock-on-active rule {} fired {} times for {} activation(s) of its group {}",
                    name,
                    n,
                    self.activations.get(*group).unwrap_or(&0),
                    group
                ));
            }
            if let Some(g) = act {
                self.activate(g);
            }
        }
        Ok(())
    }
}

fn run_history(h: &[Op]) -> Option<String> {
    let (mut engine, log) = build();
    let facts = Facts::new();
    facts.set("go", Value::Boolean(true));
    let mut m = Model::new();
    for (i, op) in h.iter().enumerate() {
        log.lock().unwrap().clear();
        match *op {
            Op::SetFocus(g) => {
                engine.set_agenda_focus(g);
                m.activate(g);
            }
            Op::Activate(g) => {
                engine.activate_agenda_group(g.to_string());
                m.activate(g);
            }
            Op::Pop => {
                engine.pop_agenda_focus();
                if m.stack.len() > 1 {
                    m.stack.pop();
                }
            }
            Op::Clear => {
                engine.clear_agenda_focus();
                m.stack = vec!["MAIN".to_string()];
            }
            Op::Exec => {
                engine.execute(&facts).unwrap();
            }
            Op::ExecCb => {
                engine.execute_with_callback(&facts, |_, _| {}).unwrap();
            }
            Op::Step(g) => {
                m.activate(g);
                engine.execute_workflow_step(g, &facts).unwrap();
            }
        }
        let fired = log.lock().unwrap().clone();
        if let Err(e) = m.replay(&fired) {
            return Some(format!("history {:?}, operation #{} {:?}: fired {:?}: {}", h, i, op, fired, e));
        }
        let got = engine.get_active_agenda_group().to_string();
        if got != m.top() {
            return Some(format!(
                "history {:?}, after operation #{} {:?} (fired {:?}): focused group is {} but the history puts {} on top",
                h,
                i,
                op,
                fired,
                got,
                m.top()
            ));
        }
    }
    None
}

/// every history of up to `n` operations over the alphabet
fn c02_focus_histories_fire_only_the_focused_group_once_per_activation() -> (bool, String) {
    let alphabet = [
        Op::SetFocus("G"),
        Op::SetFocus("H"),
        Op::SetFocus("MAIN"),
        Op::Activate("G"),
        Op::Activate("H"),
        Op::Pop,
        Op::Clear,
        Op::Exec,
        Op::ExecCb,
        Op::Step("G"),
        Op::Step("H"),
    ];
    let max_len = if crate::thorough() { 5 } else { 4 };
    let mut tried = 0usize;
    for len in 1..=max_len {
        let total = alphabet.len().pow(len as u32);
        for code in 0..total {
            let mut c = code;
            let mut h: Vec<Op> = Vec::with_capacity(len);
            for _ in 0..len {
                h.push(alphabet[c % alphabet.len()]);
                c /= alphabet.len();
            }
            // only histories that run rules at least once can show anything
            if h.iter().any(|o| matches!(o, Op::Exec | Op::ExecCb | Op::Step(_))) {
                tried += 1;
                if let Some(msg) = run_history(&h) {
                    return (true, msg);
                }
            }
        }
    }
    (false, format!("{} focus histories of up to {} operations over {:?}: every firing in the focused group, every lock-on-active rule at most once per activation, focus as the history set it", tried, max_len, alphabet))
}

pub fn witnesses() -> Vec<crate::W> {
    vec![("c02_focus_histories_fire_only_the_focused_group_once_per_activation", c02_focus_histories_fire_only_the_focused_group_once_per_activation)]
}
