//! C04 witnesses, ONE clause of the statement: "condition tree (`&&` binds tighter than `||`; parentheses and `!` respected) ... exactly
//! those written, with string literals opaque to the parser.  The result for a rule does not depend on whitespace, line breaks".
//! BOUNDED (random trees with a fixed seed + a fixed list of texts); never a proof.  Wire into main.rs with `mod c04;` +
//! `all.extend(c04::witnesses());`.
//!
//! Reference (from the statement, not from the code): a condition text is written from a TREE over leaves by the usual printing rules —
//! `||` loosest, `&&` tighter, `!` tightest, parentheses where the tree needs them (an `||` under `&&`, anything compound under `!`, a
//! RIGHT child with the same operator as its parent: `a || (b || c)`), or everywhere (full parenthesisation), with arbitrary whitespace /
//! line breaks around operators and inside parentheses.  Parsing the text must give back exactly the generating tree; a flat chain
//! `a || b || c` is the LEFT-nested tree Or(Or(a, b), c) (what unit grl_tree proves the parser builds).  Leaves are compared by field,
//! operator and value; two of them are string literals containing GRL metacharacters (`p && q`, `((`, `)`, `a || b`).
use rust_rule_engine::engine::rule::ConditionGroup;
use rust_rule_engine::parser::grl::GRLParser;
use rust_rule_engine::types::LogicalOperator;
use rust_rule_engine::{EngineConfig, Facts, KnowledgeBase, RustRuleEngine, Value};
use std::sync::{Arc, Mutex};

fn guarded(secs: u64, f: fn(&Arc<Mutex<String>>) -> (bool, String)) -> (bool, String) {
    let progress = Arc::new(Mutex::new(String::new()));
    let p2 = progress.clone();
    let (tx, rx) = std::sync::mpsc::channel();
    std::thread::spawn(move || {
        let r = std::panic::catch_unwind(std::panic::AssertUnwindSafe(|| f(&p2)));
        let _ = tx.send(r);
    });
    match rx.recv_timeout(std::time::Duration::from_secs(secs)) {
        Ok(Ok(r)) => r,
        Ok(Err(_)) => (true, format!("panicked while processing: {}", progress.lock().map(|s| s.clone()).unwrap_or_default())),
        Err(_) => (true, format!("did not return within {} s while processing: {}", secs, progress.lock().map(|s| s.clone()).unwrap_or_default())),
    }
}

#[derive(Clone, Debug)]
enum T {
    Leaf(usize),
    Not(Box<T>),
    And(Box<T>, Box<T>),
    Or(Box<T>, Box<T>),
}

/// (text as written, canonical form of the leaf the statement asks for: field, operator, value)
const LEAVES: [(&str, &str); 7] = [
    ("A.x == 1", "A.x Equal Integer(1)"),
    ("A.s == \"p && q\"", "A.s Equal String(\"p && q\")"),
    ("A.s == \"((\"", "A.s Equal String(\"((\")"),
    ("A.b == true", "A.b Equal Boolean(true)"),
    ("A.t == \")\"", "A.t Equal String(\")\")"),
    ("A.u != \"a || b\"", "A.u NotEqual String(\"a || b\")"),
    ("A.y >= 20", "A.y GreaterThanOrEqual Integer(20)"),
];

/// canonical form of the generating tree
fn want(t: &T) -> String {
    match t {
        T::Leaf(k) => format!("L[{}]", LEAVES[*k].1),
        T::Not(x) => format!("Not({})", want(x)),
        T::And(a, b) => format!("And({}, {})", want(a), want(b)),
        T::Or(a, b) => format!("Or({}, {})", want(a), want(b)),
    }
}
/// canonical form of what the parser built
fn got(g: &ConditionGroup) -> String {
    match g {
        ConditionGroup::Single(c) => format!("L[{} {:?} {:?}]", c.field, c.operator, c.value),
        ConditionGroup::Compound { left, operator, right } => {
            format!("{}({}, {})", match operator { LogicalOperator::And => "And", LogicalOperator::Or => "Or", _ => "OtherOp" }, got(left), got(right))
        }
        ConditionGroup::Not(x) => format!("Not({})", got(x)),
        other => format!("Other[{:?}]", other),
    }
}

struct Rng(u64);
impl Rng {
    fn next(&mut self, n: usize) -> usize {
        self.0 = self.0.wrapping_mul(6364136223846793005).wrapping_add(1442695040888963407);
        ((self.0 >> 33) as usize) % n
    }
}
fn gen(r: &mut Rng, depth: usize) -> T {
    if depth == 0 || r.next(5) == 0 {
        return T::Leaf(r.next(LEAVES.len()));
    }
    match r.next(5) {
        0 => T::Not(Box::new(gen(r, depth - 1))),
        1 | 2 => T::And(Box::new(gen(r, depth - 1)), Box::new(gen(r, depth - 1))),
        _ => T::Or(Box::new(gen(r, depth - 1)), Box::new(gen(r, depth - 1))),
    }
}
const SPACES: [&str; 5] = ["", " ", "  ", "\n    ", " \t "];
/// whitespace: `Some(rng)` = varied, `None` = one blank around operators, none inside parentheses
fn ws(r: &mut Option<&mut Rng>, dflt: &'static str) -> &'static str {
    match r { Some(r) => SPACES[r.next(SPACES.len())], None => dflt }
}
fn paren(r: &mut Option<&mut Rng>, inner: String) -> String {
    format!("({}{}{})", ws(r, ""), inner, ws(r, ""))
}
/// the text of a tree; `full`: every compound sub-tree in parentheses, otherwise only the parentheses the tree needs
fn print(t: &T, full: bool, r: &mut Option<&mut Rng>) -> String {
    match t {
        T::Leaf(k) => LEAVES[*k].0.to_string(),
        T::Not(x) => {
            // a leaf under `!` is always parenthesised (`!A.x == 1` is not a form the statement fixes); `!!(..)` is written as such
            let inner = match &**x {
                T::Not(_) if !full => print(x, full, r),
                _ => { let s = print(x, full, r); paren(r, s) }
            };
            format!("!{}{}", ws(r, ""), inner)
        }
        T::And(a, b) | T::Or(a, b) => {
            let is_and = matches!(t, T::And(..));
            let left = {
                let s = print(a, full, r);
                let need = match &**a { T::Leaf(_) => false, T::Not(_) => false, T::And(..) => false, T::Or(..) => is_and };
                if need || (full && !matches!(&**a, T::Leaf(_))) { paren(r, s) } else { s }
            };
            let right = {
                let s = print(b, full, r);
                // a right child with the parent's operator keeps its parentheses: the tree written is a || (b || c)
                let need = match &**b { T::Leaf(_) => false, T::Not(_) => false, T::And(..) => is_and, T::Or(..) => true };
                if need || (full && !matches!(&**b, T::Leaf(_))) { paren(r, s) } else { s }
            };
            format!("{}{}{}{}{}", left, ws(r, " "), if is_and { "&&" } else { "||" }, ws(r, " "), right)
        }
    }
}

fn parse_condition(cond: &str) -> Result<String, String> {
    let text = format!("rule \"R\" salience 3 {{\n  when\n    {}\n  then\n    A.out = 1;\n}}\n", cond);
    match GRLParser::parse_rules(&text) {
        Ok(rules) if rules.len() == 1 => Ok(got(&rules[0].conditions)),
        Ok(rules) => Err(format!("{} rules", rules.len())),
        Err(e) => Err(format!("parse error: {}", e)),
    }
}
fn check(cond: &str, t: &T) -> Option<String> {
    let w = want(t);
    match parse_condition(cond) {
        Ok(g) if g == w => None,
        Ok(g) => Some(format!("`when {}` was parsed as {} ; the tree written is {}", cond.replace('\n', "\\n").replace('\t', "\\t"), g, w)),
        Err(e) => Some(format!("`when {}` ({}); the tree written is {}", cond.replace('\n', "\\n").replace('\t', "\\t"), e, w)),
    }
}

/// random trees to depth 3 (thorough tier: 4), each printed minimally and fully parenthesised, with plain and with varied whitespace
fn c04_generated_inner(progress: &Arc<Mutex<String>>) -> (bool, String) {
    let mut rng = Rng(0xC04);
    let n = crate::bound(600, 6000);
    let depth = crate::bound(3, 4);
    let mut texts = 0usize;
    for _ in 0..n {
        let t = gen(&mut rng, depth);
        for full in [false, true] {
            for varied in [false, true] {
                let cond = if varied { print(&t, full, &mut Some(&mut rng)) } else { print(&t, full, &mut None) };
                *progress.lock().unwrap() = cond.clone();
                texts += 1;
                if let Some(bad) = check(&cond, &t) {
                    return (true, bad);
                }
            }
        }
    }
    (false, format!("{} condition texts from {} random trees (depth <= {}, {} leaf forms incl. string literals with && || ( ) inside; minimal and full parentheses; plain and varied whitespace / line breaks), each parsed by GRLParser::parse_rules and compared with the generating tree; bounded", texts, n, depth, LEAVES.len()))
}
fn c04_condition_tree_generated() -> (bool, String) {
    guarded(crate::bound(60, 600) as u64, c04_generated_inner)
}

fn l(k: usize) -> Box<T> { Box::new(T::Leaf(k)) }
/// fixed texts: the precedence / parenthesis / negation forms named in the clause, and the texts on which the scanners used to look inside
/// string literals or stop after one pair of outer parentheses
fn c04_fixed_inner(progress: &Arc<Mutex<String>>) -> (bool, String) {
    let cases: Vec<(&str, T)> = vec![
        ("A.x == 1 && A.b == true || A.y >= 20 && A.x == 1", T::Or(Box::new(T::And(l(0), l(3))), Box::new(T::And(l(6), l(0))))),
        ("A.x == 1 || A.b == true && A.y >= 20", T::Or(l(0), Box::new(T::And(l(3), l(6))))),
        ("A.x == 1 && (A.b == true || A.y >= 20)", T::And(l(0), Box::new(T::Or(l(3), l(6))))),
        ("!(A.x == 1 && A.b == true) || A.y >= 20", T::Or(Box::new(T::Not(Box::new(T::And(l(0), l(3))))), l(6))),
        ("(A.x == 1 || A.b == true) && (A.y >= 20 || A.x == 1)", T::And(Box::new(T::Or(l(0), l(3))), Box::new(T::Or(l(6), l(0))))),
        ("(A.x == 1) && (A.b == true)", T::And(l(0), l(3))),
        ("A.x == 1 || A.b == true || A.y >= 20", T::Or(Box::new(T::Or(l(0), l(3))), l(6))),
        ("A.x == 1 && A.b == true && A.y >= 20", T::And(Box::new(T::And(l(0), l(3))), l(6))),
        ("A.x == 1 || (A.b == true || A.y >= 20)", T::Or(l(0), Box::new(T::Or(l(3), l(6))))),
        ("!!(A.x == 1)", T::Not(Box::new(T::Not(l(0))))),
        ("!(A.x == 1) && A.b == true", T::And(Box::new(T::Not(l(0))), l(3))),
        // string literals are opaque
        ("A.s == \"((\" && A.b == true", T::And(l(2), l(3))),
        ("A.t == \")\" || A.b == true", T::Or(l(4), l(3))),
        ("A.s == \"p && q\" || A.b == true", T::Or(l(1), l(3))),
        ("A.u != \"a || b\" && A.x == 1", T::And(l(5), l(0))),
        ("(A.s == \"((\")", T::Leaf(2)),
        ("(A.t == \")\") && (A.s == \"((\")", T::And(l(4), l(2))),
        // more than one pair of outer parentheses; whitespace inside them
        ("((A.x == 1 && A.b == true))", T::And(l(0), l(3))),
        ("( ( A.x == 1 || A.b == true ) )", T::Or(l(0), l(3))),
        ("( !(A.b == true) )", T::Not(l(3))),
        ("(\n  !(A.x == 1)\n  &&\n  A.b == true\n)", T::And(Box::new(T::Not(l(0))), l(3))),
    ];
    for (cond, t) in &cases {
        *progress.lock().unwrap() = cond.to_string();
        if let Some(bad) = check(cond, t) {
            return (true, bad);
        }
    }
    // the behavioural consequence: a rule whose condition holds must fire, one whose condition does not hold must not
    let runs: Vec<(&str, Vec<(&str, Value)>, bool)> = vec![
        ("s == \"((\" && b == true", vec![("s", Value::String("((".into())), ("b", Value::Boolean(true))], true),
        ("s == \"((\" && b == true", vec![("s", Value::String("((".into())), ("b", Value::Boolean(false))], false),
        ("s == \")\" || b == true", vec![("s", Value::String("zz".into())), ("b", Value::Boolean(true))], true),
        ("s == \"p && q\" || b == true", vec![("s", Value::String("p && q".into())), ("b", Value::Boolean(false))], true),
        ("((x == 1 && y == 2))", vec![("x", Value::Integer(1)), ("y", Value::Integer(2))], true),
        ("((x == 1 && y == 2))", vec![("x", Value::Integer(1)), ("y", Value::Integer(3))], false),
        ("( !(b == true) )", vec![("b", Value::Boolean(false))], true),
    ];
    for (cond, sets, expect) in &runs {
        *progress.lock().unwrap() = cond.to_string();
        let text = format!("rule \"R\" salience 0 {{\n when\n  {}\n then\n  out = 1;\n}}\n", cond);
        let kb = KnowledgeBase::new("c04");
        if let Err(e) = kb.add_rules_from_grl(&text) {
            return (true, format!("`when {}` does not load: {}", cond, e));
        }
        let mut engine = RustRuleEngine::with_config(kb, EngineConfig { max_cycles: 1, timeout: None, enable_stats: false, debug_mode: false });
        let facts = Facts::new();
        for (k, v) in sets {
            facts.set(k, v.clone());
        }
        if let Err(e) = engine.execute(&facts) {
            return (true, format!("`when {}` on {:?}: execute returned Err({})", cond, sets, e));
        }
        let fired = facts.get("out") == Some(Value::Integer(1));
        if fired != *expect {
            return (true, format!("rule `when {} then out = 1;` on facts {:?}: fired = {}, the condition as written is {}", cond, sets, fired, expect));
        }
    }
    (false, format!("{} fixed condition texts compared with the tree written (precedence, parentheses, negation, literals containing && || ( ), nested outer parentheses), {} rules executed; bounded", cases.len(), runs.len()))
}
fn c04_condition_tree_fixed_texts() -> (bool, String) {
    guarded(30, c04_fixed_inner)
}

pub fn witnesses() -> Vec<crate::W> {
    vec![
        ("c04_condition_tree_generated", c04_condition_tree_generated),
        ("c04_condition_tree_fixed_texts", c04_condition_tree_fixed_texts),
    ]
}
