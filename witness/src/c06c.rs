//! C06 witness searches, part c: WHAT "the rule's condition is true of that fact's contents" means — the typed node
//! evaluation (src/rete/facts.rs FactValue::compare, src/rete/alpha.rs AlphaNode::matches_typed, the UlAnd / UlOr /
//! UlNot arms of src/rete/network.rs evaluate_rete_ul_node_typed), directly and through rules on IncrementalEngine.
//!
//! REFERENCE (`reference` below; written from the documented meaning of the operators, NOT from the code):
//!   * a value is a NUMBER when it is an Integer, a Float, or a String whose text is a decimal number (facts.rs
//!     "Convert to number (f64)"); `>` `<` hold only between two numbers, by numeric value, whatever the
//!     representation (Float 18.0 vs Integer 18 is a tie); `>=` `<=` hold exactly when `>` / `<` holds or the two
//!     numbers are equal AS NUMBERS; between two values that are not both numbers `>=` / `<=` degrade to equality;
//!   * `==` is equality of values of the same kind (String by text, Integer / Boolean by value, Float by IEEE ==,
//!     Array element-wise, Null == Null), false across kinds; `!=` is its negation;
//!   * `contains`: substring on two strings, membership on (Array, value); `startsWith` / `endsWith`: prefix /
//!     suffix on two strings; `matches`: `*` (any run) / `?` (one character) wildcard on two strings; `in`: the
//!     right side is an array one of whose elements equals the left side; every other combination is false;
//!   * a comparison that reads a field the fact does not have is false (every operator, `!=` included);
//!   * And / Or / Not nodes are conjunction / disjunction / negation of their children.
//! The tables are cross products of a pool of 18 values (ties across representations, negatives, numeric-looking
//! and empty strings, wildcard patterns, booleans, Null, arrays) with all 11 operators and one unknown operator.
//!
//! Register in main.rs with `mod c06c;` and `all.extend(c06c::witnesses());`.
use rust_rule_engine::rete::grl_loader::GrlReteLoader;
use rust_rule_engine::rete::propagation::IncrementalEngine;
use rust_rule_engine::rete::{AlphaNode, FactValue, ReteUlNode, TypedFacts, TypedReteUlRule};
use std::sync::Arc;

#[derive(Clone, Debug, PartialEq)]
enum V {
    I(i64),
    F(f64),
    S(&'static str),
    B(bool),
    Null,
    A(Vec<V>),
}

const OPS: [&str; 12] = ["==", "!=", ">", "<", ">=", "<=", "contains", "startsWith", "endsWith", "matches", "in", "~"];

fn pool() -> Vec<V> {
    vec![
        V::I(18),
        V::F(18.0),
        V::F(17.5),
        V::I(-1),
        V::F(-1.0),
        V::I(0),
        V::S("18"),
        V::S("abc"),
        V::S("ab"),
        V::S("bc"),
        V::S(""),
        V::S("a*c"),
        V::S("?b?"),
        V::B(true),
        V::B(false),
        V::Null,
        V::A(vec![V::I(18), V::S("abc"), V::B(true)]),
        V::A(vec![]),
    ]
}

impl V {
    fn fact_value(&self) -> FactValue {
        match self {
            V::I(i) => FactValue::Integer(*i),
            V::F(f) => FactValue::Float(*f),
            V::S(s) => FactValue::String(s.to_string()),
            V::B(b) => FactValue::Boolean(*b),
            V::Null => FactValue::Null,
            V::A(a) => FactValue::Array(a.iter().map(|v| v.fact_value()).collect()),
        }
    }
    /// numeric reading: independent of the crate (own decimal grammar for the strings of the pool)
    fn num(&self) -> Option<f64> {
        match self {
            V::I(i) => Some(*i as f64),
            V::F(f) => Some(*f),
            V::S(s) => {
                let digits = s.strip_prefix('-').unwrap_or(s);
                if !digits.is_empty() && digits.chars().all(|c| c.is_ascii_digit()) {
                    let mut n = 0f64;
                    for c in digits.chars() {
                        n = n * 10.0 + (c as u8 - b'0') as f64;
                    }
                    Some(if s.starts_with('-') { -n } else { n })
                } else {
                    None
                }
            }
            _ => None,
        }
    }
    fn same(&self, o: &V) -> bool {
        match (self, o) {
            (V::I(a), V::I(b)) => a == b,
            (V::F(a), V::F(b)) => a == b,
            (V::S(a), V::S(b)) => a == b,
            (V::B(a), V::B(b)) => a == b,
            (V::Null, V::Null) => true,
            (V::A(a), V::A(b)) => a.len() == b.len() && a.iter().zip(b.iter()).all(|(x, y)| x.same(y)),
            _ => false,
        }
    }
}

/// `*` / `?` wildcard by dynamic programming over (pattern prefix, text prefix) — not the recursion the crate uses
fn wild(text: &str, pat: &str) -> bool {
    let t: Vec<char> = text.chars().collect();
    let p: Vec<char> = pat.chars().collect();
    let mut row = vec![false; t.len() + 1];
    row[0] = true;
    for pc in &p {
        let mut next = vec![false; t.len() + 1];
        for j in 0..=t.len() {
            next[j] = match pc {
                '*' => row[j] || (j > 0 && next[j - 1]),
                '?' => j > 0 && row[j - 1],
                c => j > 0 && row[j - 1] && t[j - 1] == *c,
            };
        }
        row = next;
    }
    row[t.len()]
}

fn substring(a: &str, b: &str) -> bool {
    let a: Vec<char> = a.chars().collect();
    let b: Vec<char> = b.chars().collect();
    b.len() <= a.len() && (0..=a.len() - b.len()).any(|i| a[i..i + b.len()] == b[..])
}

fn reference(l: &V, op: &str, r: &V) -> bool {
    let nums = match (l.num(), r.num()) {
        (Some(a), Some(b)) => Some((a, b)),
        _ => None,
    };
    match op {
        "==" => l.same(r),
        "!=" => !l.same(r),
        ">" => nums.map(|(a, b)| a > b).unwrap_or(false),
        "<" => nums.map(|(a, b)| a < b).unwrap_or(false),
        ">=" => nums.map(|(a, b)| a > b || a == b).unwrap_or_else(|| l.same(r)),
        "<=" => nums.map(|(a, b)| a < b || a == b).unwrap_or_else(|| l.same(r)),
        "contains" => match (l, r) {
            (V::S(a), V::S(b)) => substring(a, b),
            (V::A(a), v) => a.iter().any(|x| x.same(v)),
            _ => false,
        },
        "startsWith" => match (l, r) {
            (V::S(a), V::S(b)) => a.len() >= b.len() && a.chars().zip(b.chars()).all(|(x, y)| x == y),
            _ => false,
        },
        "endsWith" => match (l, r) {
            (V::S(a), V::S(b)) => a.len() >= b.len() && a.chars().rev().zip(b.chars().rev()).all(|(x, y)| x == y),
            _ => false,
        },
        "matches" => match (l, r) {
            (V::S(a), V::S(b)) => wild(a, b),
            _ => false,
        },
        "in" => match r {
            V::A(a) => a.iter().any(|x| x.same(l)),
            _ => false,
        },
        _ => false,
    }
}

// ------------------------------------------------------------------------------------------------ (a) FactValue::compare

fn c06_typed_compare_table() -> (bool, String) {
    let pool = pool();
    let mut n = 0u64;
    for l in &pool {
        for r in &pool {
            for op in OPS {
                n += 1;
                let got = l.fact_value().compare(op, &r.fact_value());
                let want = reference(l, op, r);
                if got != want {
                    return (true, format!("FactValue::compare: {:?} {} {:?} = {} but the documented meaning is {}", l, op, r, got, want));
                }
            }
        }
    }
    // the accessors the comparison goes through: the same number whatever the representation
    for v in &pool {
        let fv = v.fact_value();
        if fv.as_number() != v.num() || fv.as_float() != v.num() {
            return (true, format!("{:?}: as_number() = {:?}, as_float() = {:?}, expected {:?}", v, fv.as_number(), fv.as_float(), v.num()));
        }
    }
    (false, format!("{} triples (18 values x 12 operators x 18 values) through FactValue::compare, as_number / as_float of every value", n))
}

// ------------------------------------------------------------------------------------------------ (b) alpha nodes and node trees on the engine

/// one fact of type T with the field `x` (and nothing else), one rule on `node`; did the rule fire?
fn fires(node: ReteUlNode, x: Option<&V>, y: Option<&V>) -> Result<bool, String> {
    let mut e = IncrementalEngine::new();
    e.add_rule(
        TypedReteUlRule { name: "R".to_string(), node, priority: 0, no_loop: true, action: Arc::new(|_, _| {}) },
        vec!["T".to_string()],
    );
    let mut f = TypedFacts::new();
    if let Some(x) = x {
        f.set("x", x.fact_value());
    }
    if let Some(y) = y {
        f.set("y", y.fact_value());
    }
    f.set("other", FactValue::Integer(1));
    e.insert("T".to_string(), f);
    let fired = e.fire_all();
    match fired.len() {
        0 => Ok(false),
        1 if fired[0] == "R" => Ok(true),
        _ => Err(format!("fire_all returned {:?} for one no-loop rule and one fact", fired)),
    }
}

fn alpha(field: &str, op: &str, value: &FactValue) -> ReteUlNode {
    ReteUlNode::UlAlpha(AlphaNode::with_typed_value(field.to_string(), op.to_string(), value.clone()))
}

/// does the textual form of the node value (`FactValue::as_string`, what AlphaNode stores) read back as the same value?
/// Only these values can be the right-hand LITERAL of an alpha node; the others are compared through a second field.
fn literal_round_trips(v: &V) -> bool {
    match v {
        V::I(_) => true,
        V::F(f) => f.fract() != 0.0, // "18" reads back as an integer: compared through a field instead
        V::S(s) => v.num().is_none() && !s.is_empty() && *s != "true" && *s != "false" && *s != "null" && !s.starts_with('['),
        V::B(_) => true,
        V::Null => true,
        V::A(_) => false,
    }
}

fn c06_alpha_node_table_on_engine() -> (bool, String) {
    let pool = pool();
    let (mut n_lit, mut n_var, mut n_missing) = (0u64, 0u64, 0u64);
    for r in &pool {
        for op in OPS {
            // the field the node reads is absent: never satisfied
            n_missing += 1;
            match fires(alpha("T.x", op, &r.fact_value()), None, Some(r)) {
                Err(e) => return (true, e),
                Ok(true) => return (true, format!("rule `T.x {} {:?}` fired for a fact T{{y: .., other: 1}} that has no field x", op, r)),
                Ok(false) => {}
            }
            for l in &pool {
                let want = reference(l, op, r);
                // right-hand side = another field of the same fact (variable reference)
                n_var += 1;
                let node = ReteUlNode::UlAlpha(AlphaNode { field: "T.x".to_string(), operator: op.to_string(), value: "T.y".to_string() });
                match fires(node, Some(l), Some(r)) {
                    Err(e) => return (true, e),
                    Ok(got) if got != want => {
                        return (true, format!("rule `T.x {} T.y` {} for the fact T{{x: {:?}, y: {:?}}}; documented meaning of the comparison: {}", op, if got { "fired" } else { "did not fire" }, l, r, want))
                    }
                    _ => {}
                }
                // right-hand side = literal
                if literal_round_trips(r) {
                    n_lit += 1;
                    match fires(alpha("T.x", op, &r.fact_value()), Some(l), None) {
                        Err(e) => return (true, e),
                        Ok(got) if got != want => {
                            return (true, format!("rule `T.x {} {:?}` (alpha node with that literal) {} for the fact T{{x: {:?}}}; documented meaning: {}", op, r, if got { "fired" } else { "did not fire" }, l, want))
                        }
                        _ => {}
                    }
                }
            }
        }
    }
    (false, format!("one rule, one fact, insert + fire_all on IncrementalEngine: {} (value, operator, literal) alpha nodes, {} (value, operator, second field) alpha nodes, {} nodes reading an absent field", n_lit, n_var, n_missing))
}

fn c06_connective_nodes_on_engine() -> (bool, String) {
    // leaves with known truth on the fact T{x: 18.0 (Float), y: "abc"}: the tie across representations, a string test, an absent field
    let x = V::F(18.0);
    let y = V::S("abc");
    let leaves: Vec<(ReteUlNode, bool, &str)> = vec![
        (alpha("T.x", ">=", &FactValue::Integer(18)), true, "T.x >= 18"),
        (alpha("T.x", ">", &FactValue::Integer(18)), false, "T.x > 18"),
        (alpha("T.y", "startsWith", &FactValue::String("ab".to_string())), true, "T.y startsWith ab"),
        (alpha("T.z", "!=", &FactValue::Integer(1)), false, "T.z != 1 (no field z)"),
    ];
    let mut n = 0u64;
    let mut check = |node: ReteUlNode, want: bool, text: String| -> Option<String> {
        n += 1;
        match fires(node, Some(&x), Some(&y)) {
            Err(e) => Some(e),
            Ok(got) if got != want => Some(format!("rule `{}` {} for the fact T{{x: 18.0, y: \"abc\"}}; expected {}", text, if got { "fired" } else { "did not fire" }, want)),
            _ => None,
        }
    };
    for (a, ta, sa) in &leaves {
        if let Some(e) = check(ReteUlNode::UlNot(Box::new(a.clone())), !ta, format!("!({})", sa)) {
            return (true, e);
        }
        if let Some(e) = check(ReteUlNode::UlNot(Box::new(ReteUlNode::UlNot(Box::new(a.clone())))), *ta, format!("!!({})", sa)) {
            return (true, e);
        }
        for (b, tb, sb) in &leaves {
            if let Some(e) = check(ReteUlNode::UlAnd(Box::new(a.clone()), Box::new(b.clone())), *ta && *tb, format!("({}) && ({})", sa, sb)) {
                return (true, e);
            }
            if let Some(e) = check(ReteUlNode::UlOr(Box::new(a.clone()), Box::new(b.clone())), *ta || *tb, format!("({}) || ({})", sa, sb)) {
                return (true, e);
            }
            for (c, tc, sc) in &leaves {
                let node = ReteUlNode::UlOr(Box::new(ReteUlNode::UlAnd(Box::new(a.clone()), Box::new(ReteUlNode::UlNot(Box::new(b.clone()))))), Box::new(c.clone()));
                if let Some(e) = check(node, (*ta && !*tb) || *tc, format!("(({}) && !({})) || ({})", sa, sb, sc)) {
                    return (true, e);
                }
            }
        }
    }
    (false, format!("{} And / Or / Not trees over 4 leaves of known truth (a cross-representation tie, a strict comparison on the tie, a string test, a comparison on an absent field), one fact, insert + fire_all", n))
}

// ------------------------------------------------------------------------------------------------ (b') GRL-loaded rules

fn grl_literal(v: &V) -> Option<String> {
    match v {
        V::I(i) => Some(i.to_string()),
        V::F(f) if f.fract() != 0.0 => Some(format!("{:?}", f)),
        V::S(s) if literal_round_trips(v) && !s.contains('*') && !s.contains('?') => Some(format!("\"{}\"", s)),
        V::B(b) => Some(b.to_string()),
        _ => None,
    }
}

fn grl_fires(cond: &str, x: Option<&V>) -> Result<bool, String> {
    let grl = format!("rule \"R\" no-loop {{ when {} then Log(\"R\"); }}", cond);
    let mut e = IncrementalEngine::new();
    let n = GrlReteLoader::load_from_string(&grl, &mut e).map_err(|err| format!("GRL did not load: {:?}\n{}", err, grl))?;
    if n != 1 {
        return Err(format!("GRL loaded {} rules from\n{}", n, grl));
    }
    let mut f = TypedFacts::new();
    if let Some(x) = x {
        f.set("x", x.fact_value());
    }
    f.set("other", FactValue::Integer(1));
    e.insert("T".to_string(), f);
    let fired = e.fire_all();
    match fired.len() {
        0 => Ok(false),
        1 if fired[0] == "R" => Ok(true),
        _ => Err(format!("fire_all returned {:?} for one no-loop rule and one fact ({})", fired, cond)),
    }
}

fn c06_grl_rule_fires_by_table() -> (bool, String) {
    let pool = pool();
    let ops = ["==", "!=", ">", "<", ">=", "<=", "contains", "startsWith", "endsWith", "matches"];
    let mut n = 0u64;
    for r in &pool {
        let lit = match grl_literal(r) {
            Some(l) => l,
            None => continue,
        };
        for op in ops {
            // string operators are written with string literals only
            if matches!(op, "contains" | "startsWith" | "endsWith" | "matches") && !matches!(r, V::S(_)) {
                continue;
            }
            let cond = format!("T.x {} {}", op, lit);
            match grl_fires(&cond, None) {
                Err(e) => return (true, e),
                Ok(true) => return (true, format!("GRL rule `{}` fired for a fact of type T that has no field x", cond)),
                Ok(false) => {}
            }
            for l in &pool {
                n += 1;
                let want = reference(l, op, r);
                match grl_fires(&cond, Some(l)) {
                    Err(e) => return (true, e),
                    Ok(got) if got != want => {
                        return (true, format!("GRL rule `{}` {} for the fact T{{x: {:?}}}; documented meaning of the condition: {}", cond, if got { "fired" } else { "did not fire" }, l, want))
                    }
                    _ => {}
                }
                // the same leaf under a negation and in a conjunction / disjunction with a leaf of known truth
                if !matches!(op, "==" | ">=" | "<" | "contains") {
                    continue;
                }
                for (c2, w2) in [
                    (format!("!({})", cond), !want),
                    (format!("{} && T.other == 1", cond), want),
                    (format!("{} || T.other == 2", cond), want),
                    (format!("{} && T.other == 2", cond), false),
                ] {
                    n += 1;
                    match grl_fires(&c2, Some(l)) {
                        Err(e) => return (true, e),
                        Ok(got) if got != w2 => {
                            return (true, format!("GRL rule `{}` {} for the fact T{{x: {:?}, other: 1}}; documented meaning of the condition: {}", c2, if got { "fired" } else { "did not fire" }, l, w2))
                        }
                        _ => {}
                    }
                }
            }
        }
    }
    (false, format!("{} (GRL condition, fact) pairs: `T.x OP literal` for every literal of the pool that GRL can spell and that keeps its type when lowered (integers, non-integral floats, booleans, non-numeric strings), alone, negated, and-ed, or-ed; load_from_string + insert + fire_all", n))
}

// ------------------------------------------------------------------------------------------------ open findings (REPRODUCE on the current tree)
// Not part of `witnesses()`: they reproduce on the unmodified repository, so registering them needs an entry in known_findings.json.
// Both are about the LOWERING of a GRL literal into the alpha node (grl_loader.rs value_to_string -> alpha.rs parse_value_string: the
// node keeps only the TEXT of the literal and re-reads it), observed through load_from_string + insert + fire_all.

/// a quoted literal whose text looks like a number / boolean is re-read as that number / boolean: `T.x == "18"` is false of the
/// string "18" and `T.x != "18"` is true of it
fn c06_quoted_literal_loses_its_type() -> (bool, String) {
    let s18 = V::S("18");
    for (cond, x, want) in [
        ("T.x != \"18\"", &s18, false),
        ("T.x == \"18\"", &s18, true),
        ("T.x startsWith \"1\"", &s18, true),
        ("T.x == \"true\"", &V::S("true"), true),
    ] {
        match grl_fires(cond, Some(x)) {
            Err(e) => return (true, e),
            Ok(got) if got != want => {
                return (true, format!("GRL rule `{}` {} for the fact T{{x: {:?}}} (one rule, insert, fire_all); the condition is {} of that fact's contents", cond, if got { "fired" } else { "did not fire" }, x, want))
            }
            _ => {}
        }
    }
    (false, "quoted numeric / boolean literals compared with string facts of the same text".to_string())
}

/// a float literal with an integral value is printed as "18", re-read as Integer 18, and `==` is representation-sensitive:
/// `T.x != 18.0` fires for the fact x = 18.0 (Float); `T.x == 18` does not fire for it although `T.x >= 18 && T.x <= 18` does
fn c06_equality_is_representation_sensitive() -> (bool, String) {
    let f18 = V::F(18.0);
    for (cond, x, want) in [("T.x != 18.0", &f18, false), ("T.x == 18.0", &f18, true), ("T.x == 18", &f18, true), ("T.x >= 18 && T.x <= 18", &f18, true)] {
        match grl_fires(cond, Some(x)) {
            Err(e) => return (true, e),
            Ok(got) if got != want => {
                return (true, format!("GRL rule `{}` {} for the fact T{{x: {:?}}} (one rule, insert, fire_all); as numbers the condition is {}", cond, if got { "fired" } else { "did not fire" }, x, want))
            }
            _ => {}
        }
    }
    (false, "== / != between a Float fact and a numeric literal of the same value".to_string())
}

pub fn witnesses() -> Vec<crate::W> {
    vec![
        ("c06_typed_compare_table", c06_typed_compare_table as fn() -> (bool, String)),
        ("c06_alpha_node_table_on_engine", c06_alpha_node_table_on_engine as fn() -> (bool, String)),
        ("c06_connective_nodes_on_engine", c06_connective_nodes_on_engine as fn() -> (bool, String)),
        ("c06_grl_rule_fires_by_table", c06_grl_rule_fires_by_table as fn() -> (bool, String)),
    ]
}

/// see the section comment: register only together with known_findings.json entries of the same names
#[allow(dead_code)]
pub fn open_finding_witnesses() -> Vec<crate::W> {
    vec![
        ("c06_quoted_literal_loses_its_type", c06_quoted_literal_loses_its_type as fn() -> (bool, String)),
        ("c06_equality_is_representation_sensitive", c06_equality_is_representation_sensitive as fn() -> (bool, String)),
    ]
}
