pub fn witnesses() -> Vec<crate::W> { vec![] }
