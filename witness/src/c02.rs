//! C02 witnesses: "firing order and rule attributes are honoured on every run".  Wire into main.rs with `mod c02;` +
//! `all.extend(c02::witnesses());`  (agenda_mgr.rs holds two fixed C02 histories; the searches here are independent of it).
//!
//! Reference (written from the statement): one pass visits the rules in descending salience, ties in the order the rules were
//! added; a rule fires when it is enabled, its agenda group (MAIN when it names none) is the focused group at that moment, the
//! evaluation time lies in [date_effective, date_expires), it is not a no-loop rule that fired since the last reset of the
//! tracking, no rule of its activation group fired earlier in this pass, it is not a lock-on-active rule that fired since the
//! last activation (set focus / ActivateAgendaGroup) of its group, and its condition holds.  set focus moves the group to the
//! top of the focus stack, pop returns to the group below (no-op on a single group), clear returns to MAIN; an
//! ActivateAgendaGroup action sets the focus when it runs.  A call makes passes until one fires nothing or max_cycles is reached.
//! The firing sequence is observed through a custom `mark` action (first action of every rule) and, for
//! execute_with_callback, through the callback.
use rust_rule_engine::{ActionType, Condition, ConditionGroup, EngineConfig, Facts, KnowledgeBase, Operator, Rule, RustRuleEngine, Value};
use std::collections::{BTreeMap, BTreeSet, HashMap};
use std::sync::{Arc, Mutex};

fn guarded(secs: u64, f: fn(&Arc<Mutex<String>>) -> (bool, String)) -> (bool, String) {
    let progress = Arc::new(Mutex::new(String::new()));
    let p2 = progress.clone();
    let (tx, rx) = std::sync::mpsc::channel();
    std::thread::spawn(move || {
        let r = std::panic::catch_unwind(std::panic::AssertUnwindSafe(|| f(&p2)));
        let _ = tx.send(r);
    });
    match rx.recv_timeout(std::time::Duration::from_secs(secs)) {
        Ok(Ok(r)) => r,
        Ok(Err(_)) => (true, format!("panicked while processing: {}", progress.lock().map(|s| s.clone()).unwrap_or_default())),
        Err(_) => (true, format!("did not return within {} s while processing: {}", secs, progress.lock().map(|s| s.clone()).unwrap_or_default())),
    }
}

// ------------------------------------------------------------------------------------------------------------------------
// rule descriptions shared by the reference and the real engine
// ------------------------------------------------------------------------------------------------------------------------
#[derive(Clone, Debug)]
enum AM {
    Set(&'static str, bool),
    Activate(&'static str),
}

/// times are nanoseconds of the day 2030-01-01 (UTC)
#[derive(Clone, Debug)]
struct RM {
    name: String,
    sal: i32,
    enabled: bool,
    no_loop: bool,
    lock: bool,
    agenda: Option<&'static str>,
    act: Option<&'static str>,
    eff: Option<u64>,
    exp: Option<u64>,
    cond: Option<&'static str>, // a boolean fact that must be true; None = always true
    actions: Vec<AM>,
}
fn rm(name: &str, sal: i32) -> RM {
    RM { name: name.to_string(), sal, enabled: true, no_loop: false, lock: false, agenda: None, act: None, eff: None, exp: None, cond: None, actions: vec![] }
}
impl RM {
    fn no_loop(mut self) -> Self {
        self.no_loop = true;
        self
    }
    fn lock(mut self) -> Self {
        self.lock = true;
        self
    }
    fn agenda(mut self, g: &'static str) -> Self {
        self.agenda = Some(g);
        self
    }
    fn act(mut self, g: &'static str) -> Self {
        self.act = Some(g);
        self
    }
    fn cond(mut self, c: &'static str) -> Self {
        self.cond = Some(c);
        self
    }
    fn disabled(mut self) -> Self {
        self.enabled = false;
        self
    }
    fn dates(mut self, eff: Option<u64>, exp: Option<u64>) -> Self {
        self.eff = eff;
        self.exp = exp;
        self
    }
    fn does(mut self, a: Vec<AM>) -> Self {
        self.actions = a;
        self
    }
    fn group(&self) -> String {
        self.agenda.unwrap_or("MAIN").to_string()
    }
    fn describe(&self) -> String {
        let mut s = format!("{}(salience {}", self.name, self.sal);
        if !self.enabled {
            s.push_str(", disabled");
        }
        if self.no_loop {
            s.push_str(", no-loop");
        }
        if self.lock {
            s.push_str(", lock-on-active");
        }
        if let Some(g) = self.agenda {
            s.push_str(&format!(", agenda-group {}", g));
        }
        if let Some(g) = self.act {
            s.push_str(&format!(", activation-group {}", g));
        }
        if let Some(t) = self.eff {
            s.push_str(&format!(", effective {}", stamp(t)));
        }
        if let Some(t) = self.exp {
            s.push_str(&format!(", expires {}", stamp(t)));
        }
        s.push_str(&format!(", when {}", self.cond.map(|c| format!("{} == true", c)).unwrap_or("true".into())));
        if !self.actions.is_empty() {
            s.push_str(&format!(", then {:?}", self.actions));
        }
        s.push(')');
        s
    }
}
fn describe_rules(rs: &[RM]) -> String {
    rs.iter().map(|r| r.describe()).collect::<Vec<_>>().join(" ")
}

fn stamp(ns_of_day: u64) -> String {
    let secs = ns_of_day / 1_000_000_000;
    let ns = ns_of_day % 1_000_000_000;
    format!("2030-01-01T{:02}:{:02}:{:02}.{:09}Z", secs / 3600, (secs / 60) % 60, secs % 60, ns)
}

fn to_rule(r: &RM) -> Rule {
    let cond = match r.cond {
        Some(c) => Condition::new(c.to_string(), Operator::Equal, Value::Boolean(true)),
        None => Condition::new("go".to_string(), Operator::Equal, Value::Boolean(true)),
    };
    let mut params = HashMap::new();
    params.insert("rule".to_string(), Value::String(r.name.clone()));
    let mut actions = vec![ActionType::Custom { action_type: "mark".to_string(), params }];
    for a in &r.actions {
        actions.push(match a {
            AM::Set(k, v) => ActionType::Set { field: k.to_string(), value: Value::Boolean(*v) },
            AM::Activate(g) => ActionType::ActivateAgendaGroup { group: g.to_string() },
        });
    }
    let mut rule = Rule::new(r.name.clone(), ConditionGroup::single(cond), actions).with_salience(r.sal).with_no_loop(r.no_loop).with_lock_on_active(r.lock);
    rule.enabled = r.enabled;
    if let Some(g) = r.agenda {
        rule = rule.with_agenda_group(g.to_string());
    }
    if let Some(g) = r.act {
        rule = rule.with_activation_group(g.to_string());
    }
    if let Some(t) = r.eff {
        rule = rule.with_date_effective_str(&stamp(t)).unwrap();
    }
    if let Some(t) = r.exp {
        rule = rule.with_date_expires_str(&stamp(t)).unwrap();
    }
    rule
}

// ------------------------------------------------------------------------------------------------------------------------
// the reference
// ------------------------------------------------------------------------------------------------------------------------
#[derive(Clone)]
struct Model {
    rules: Vec<RM>, // in the order they were added
    focus: Vec<String>,
    locked: BTreeSet<(String, String)>, // (group, rule): fired since the last activation of the group
    fired_no_loop: BTreeSet<String>,
    flags: BTreeMap<String, bool>,
    max_cycles: usize,
}
impl Model {
    fn new(rules: &[RM], flags: &[(&str, bool)], max_cycles: usize) -> Model {
        Model {
            rules: rules.to_vec(),
            focus: vec!["MAIN".to_string()],
            locked: BTreeSet::new(),
            fired_no_loop: BTreeSet::new(),
            flags: flags.iter().map(|(k, v)| (k.to_string(), *v)).collect(),
            max_cycles,
        }
    }
    fn focused(&self) -> String {
        self.focus.last().unwrap().clone()
    }
    fn set_focus(&mut self, g: &str) {
        self.focus.retain(|x| x != g);
        self.focus.push(g.to_string());
        let g = g.to_string();
        self.locked.retain(|(gr, _)| *gr != g);
    }
    fn pop(&mut self) {
        if self.focus.len() > 1 {
            self.focus.pop();
        }
    }
    fn clear(&mut self) {
        self.focus = vec!["MAIN".to_string()];
    }
    fn exec(&mut self, t: u64) -> Vec<String> {
        let mut fired = vec![];
        for _pass in 0..self.max_cycles {
            let mut any = false;
            let mut groups_fired: BTreeSet<String> = BTreeSet::new();
            // descending salience, ties in insertion order
            let mut order: Vec<usize> = (0..self.rules.len()).collect();
            order.sort_by(|a, b| self.rules[*b].sal.cmp(&self.rules[*a].sal).then(a.cmp(b)));
            for k in order {
                let r = self.rules[k].clone();
                if !r.enabled || r.group() != self.focused() {
                    continue;
                }
                if r.eff.map(|e| t < e).unwrap_or(false) || r.exp.map(|e| t >= e).unwrap_or(false) {
                    continue;
                }
                if r.lock && self.locked.contains(&(r.group(), r.name.clone())) {
                    continue;
                }
                if r.act.map(|g| groups_fired.contains(g)).unwrap_or(false) {
                    continue;
                }
                if r.no_loop && self.fired_no_loop.contains(&r.name) {
                    continue;
                }
                if !r.cond.map(|c| *self.flags.get(c).unwrap_or(&false)).unwrap_or(true) {
                    continue;
                }
                for a in &r.actions {
                    match a {
                        AM::Set(k, v) => {
                            self.flags.insert(k.to_string(), *v);
                        }
                        AM::Activate(g) => self.set_focus(g),
                    }
                }
                fired.push(r.name.clone());
                any = true;
                if r.no_loop {
                    self.fired_no_loop.insert(r.name.clone());
                }
                if r.lock {
                    self.locked.insert((r.group(), r.name.clone()));
                }
                if let Some(g) = r.act {
                    groups_fired.insert(g.to_string());
                }
            }
            if !any {
                break;
            }
        }
        fired
    }
}

// ------------------------------------------------------------------------------------------------------------------------
// the real engine
// ------------------------------------------------------------------------------------------------------------------------
struct Rig {
    engine: RustRuleEngine,
    facts: Facts,
    log: Arc<Mutex<Vec<String>>>,
}
fn rig(rules: &[RM], flags: &[(&str, bool)], max_cycles: usize) -> Rig {
    let kb = KnowledgeBase::new("c02");
    for r in rules {
        kb.add_rule(to_rule(r)).unwrap();
    }
    let mut engine = RustRuleEngine::with_config(kb, EngineConfig { max_cycles, timeout: None, enable_stats: false, debug_mode: false });
    let log: Arc<Mutex<Vec<String>>> = Arc::new(Mutex::new(vec![]));
    let l2 = log.clone();
    engine.register_action_handler("mark", move |params, _| {
        if let Some(Value::String(n)) = params.get("rule") {
            l2.lock().unwrap().push(n.clone());
        }
        Ok(())
    });
    let facts = Facts::new();
    facts.set("go", Value::Boolean(true));
    for (k, v) in flags {
        facts.set(k, Value::Boolean(*v));
    }
    Rig { engine, facts, log }
}
impl Rig {
    /// one execute call; `callback` selects execute_with_callback (evaluation time = now) instead of execute_at_time(t)
    fn exec(&mut self, t: u64, callback: bool) -> Result<Vec<String>, String> {
        self.log.lock().unwrap().clear();
        if callback {
            let cb: Arc<Mutex<Vec<String>>> = Arc::new(Mutex::new(vec![]));
            let c2 = cb.clone();
            let res = self.engine.execute_with_callback(&self.facts, move |n, _| c2.lock().unwrap().push(n.to_string()));
            let res = res.map_err(|e| format!("execute_with_callback returned Err({})", e))?;
            let marks = self.log.lock().unwrap().clone();
            let cbs = cb.lock().unwrap().clone();
            if marks != cbs {
                return Err(format!("the callback saw {:?} but the rules' actions ran in the order {:?}", cbs, marks));
            }
            if res.rules_fired != cbs.len() {
                return Err(format!("rules_fired = {} but the callback was called {} times", res.rules_fired, cbs.len()));
            }
            Ok(cbs)
        } else {
            let when = Rule::new("t".into(), ConditionGroup::single(Condition::new("go".into(), Operator::Equal, Value::Boolean(true))), vec![])
                .with_date_effective_str(&stamp(t))
                .unwrap()
                .date_effective
                .unwrap();
            let res = self.engine.execute_at_time(&self.facts, when).map_err(|e| format!("execute_at_time returned Err({})", e))?;
            let marks = self.log.lock().unwrap().clone();
            if res.rules_fired != marks.len() {
                return Err(format!("rules_fired = {} but {} rules ran their actions", res.rules_fired, marks.len()));
            }
            Ok(marks)
        }
    }
}

const NOON: u64 = 12 * 3600 * 1_000_000_000;

// ------------------------------------------------------------------------------------------------------------------------
// W1: salience order, ties, negatives, late additions, removal and re-addition, disabled rules
// ------------------------------------------------------------------------------------------------------------------------
struct Lcg(u64);
impl Lcg {
    fn next(&mut self, n: usize) -> usize {
        self.0 = self.0.wrapping_mul(6364136223846793005).wrapping_add(1442695040888963407);
        ((self.0 >> 33) as usize) % n
    }
}

fn c02_salience_order_search_inner(progress: &Arc<Mutex<String>>) -> (bool, String) {
    let mut tried = 0;
    let seeds = crate::bound(40, 2000) as u64; // (every seed gives two runs: execute_at_time and execute_with_callback)
    for seed in 0..seeds {
        let mut g = Lcg(seed * 7919 + 13);
        let n = 22 + (seed as usize % 4) * 9; // 22, 31, 40, 49 rules
        let levels: Vec<i32> = match seed % 3 {
            0 => vec![-7, 0, 3],                  // heavy ties
            1 => vec![-100, -1, 0, 1, 5, 5, 1000], // (5 twice: more weight)
            _ => vec![i32::MIN, -2, -1, 0, 1, 2, i32::MAX],
        };
        let mut rules: Vec<RM> = vec![];
        for k in 0..n {
            let sal = levels[g.next(levels.len())];
            let mut r = rm(&format!("r{:02}", k), sal).no_loop();
            if g.next(6) == 0 {
                r = r.disabled();
            }
            rules.push(r);
        }
        // rules added after the engine exists: a high-salience one, a tie with the most common level, a low one
        let late = vec![rm("late_hi", *levels.iter().max().unwrap()).no_loop(), rm("late_tie", levels[1]).no_loop(), rm("late_lo", *levels.iter().min().unwrap()).no_loop()];
        for callback in [false, true] {
            *progress.lock().unwrap() = format!("seed {} ({} rules)", seed, n);
            tried += 1;
            let mut model = Model::new(&rules, &[], 2);
            let mut real = rig(&rules, &[], 2);
            let mut history = format!("add {}", describe_rules(&rules));
            macro_rules! step_exec {
                () => {{
                    let want = model.exec(NOON);
                    history.push_str("; execute");
                    match real.exec(NOON, callback) {
                        Err(e) => return (true, format!("{}: {}", history, e)),
                        Ok(got) => {
                            if got != want {
                                return (true, format!("{} [{}]: fired {:?}, expected {:?}", history, if callback { "execute_with_callback" } else { "execute_at_time" }, got, want));
                            }
                        }
                    }
                }};
            }
            step_exec!();
            // late additions, then everything may fire again
            for r in &late {
                real.engine.knowledge_base().add_rule(to_rule(r)).unwrap();
                model.rules.push(r.clone());
                history.push_str(&format!("; add {}", r.describe()));
            }
            real.engine.reset_no_loop_tracking();
            model.fired_no_loop.clear();
            history.push_str("; reset_no_loop_tracking");
            step_exec!();
            // remove a rule from the middle of a tie and add it again: it now comes last among its equals
            let victim = g.next(n);
            let vname = rules[victim].name.clone();
            real.engine.knowledge_base().remove_rule(&vname).unwrap();
            real.engine.knowledge_base().add_rule(to_rule(&rules[victim])).unwrap();
            let pos = model.rules.iter().position(|r| r.name == vname).unwrap();
            let moved = model.rules.remove(pos);
            model.rules.push(moved);
            history.push_str(&format!("; remove_rule({}); add it again", vname));
            // flip the enable flag of three rules
            for _ in 0..3 {
                let k = g.next(n);
                let name = rules[k].name.clone();
                let m = model.rules.iter_mut().find(|r| r.name == name).unwrap();
                m.enabled = !m.enabled;
                real.engine.knowledge_base().set_rule_enabled(&name, m.enabled).unwrap();
                history.push_str(&format!("; set_rule_enabled({}, {})", name, m.enabled));
            }
            real.engine.reset_no_loop_tracking();
            model.fired_no_loop.clear();
            history.push_str("; reset_no_loop_tracking");
            step_exec!();
            // without a reset nothing fires again (every rule is no-loop)
            step_exec!();
        }
    }
    (false, format!("{} rule sets of 22..49 no-loop rules with tied / negative / extreme saliences in shuffled insertion order, some disabled; histories: execute, 3 late additions, reset, execute, remove+re-add, enable flips, reset, execute, execute; both execute_at_time and execute_with_callback", tried))
}
fn c02_salience_order_search() -> (bool, String) {
    guarded(crate::bound(60, 900) as u64, c02_salience_order_search_inner)
}

// ------------------------------------------------------------------------------------------------------------------------
// W2: date windows, evaluation exactly at and next to the bounds
// ------------------------------------------------------------------------------------------------------------------------
fn c02_date_window_search_inner(progress: &Arc<Mutex<String>>) -> (bool, String) {
    let s = 1_000_000_000u64;
    let bounds = [None, Some(100 * s), Some(200 * s), Some(300 * s)];
    let mut rules = vec![];
    for (a, eff) in bounds.iter().enumerate() {
        for (b, exp) in bounds.iter().enumerate() {
            // salience unrelated to the window so that the expected sequence is not in insertion order
            rules.push(rm(&format!("w{}{}", a, b), ((a * 5 + b * 3) % 4) as i32 - 1).dates(*eff, *exp));
        }
    }
    let mut times = vec![0u64, 86_399 * s];
    for b in [100 * s, 200 * s, 300 * s] {
        times.extend([b - s, b - 1_000_000, b - 1, b, b + 1, b + 1_000_000, b + s]);
    }
    let mut tried = 0;
    for t in &times {
        *progress.lock().unwrap() = format!("t = {}", stamp(*t));
        tried += 1;
        let mut model = Model::new(&rules, &[], 1);
        let mut real = rig(&rules, &[], 1);
        let want = model.exec(*t);
        match real.exec(*t, false) {
            Err(e) => return (true, format!("rules {}; execute_at_time({}): {}", describe_rules(&rules), stamp(*t), e)),
            Ok(got) => {
                if got != want {
                    let diff: Vec<&String> = got.iter().filter(|x| !want.contains(x)).chain(want.iter().filter(|x| !got.contains(x))).collect();
                    let about: Vec<String> = rules.iter().filter(|r| diff.contains(&&r.name)).map(|r| r.describe()).collect();
                    return (true, format!("16 rules with every combination of effective/expiry in {{none, +100 s, +200 s, +300 s}}; one pass of execute_at_time({}): fired {:?}, expected {:?}; differing rules: {}", stamp(*t), got, want, about.join(" ")));
                }
            }
        }
    }
    // wall-clock route (execute / execute_with_callback evaluate at `now`): windows that are decades away from any plausible now
    let far = |name: &str, eff: Option<&str>, exp: Option<&str>, sal: i32| -> Rule {
        let mut r = to_rule(&rm(name, sal));
        if let Some(e) = eff {
            r = r.with_date_effective_str(e).unwrap();
        }
        if let Some(e) = exp {
            r = r.with_date_expires_str(e).unwrap();
        }
        r
    };
    for callback in [false, true] {
        tried += 1;
        let mut real = rig(&[], &[], 1);
        let kb = real.engine.knowledge_base();
        kb.add_rule(far("expired", Some("2000-01-01T00:00:00Z"), Some("2001-01-01T00:00:00Z"), 5)).unwrap();
        kb.add_rule(far("current", Some("2000-01-01T00:00:00Z"), Some("2200-01-01T00:00:00Z"), 1)).unwrap();
        kb.add_rule(far("future", Some("2150-01-01T00:00:00Z"), Some("2200-01-01T00:00:00Z"), 4)).unwrap();
        kb.add_rule(far("open_end", Some("2000-01-01T00:00:00Z"), None, 3)).unwrap();
        kb.add_rule(far("open_start_expired", None, Some("2001-01-01T00:00:00Z"), 2)).unwrap();
        kb.add_rule(far("open_start", None, Some("2200-01-01T00:00:00Z"), 0)).unwrap();
        let got = if callback {
            real.exec(0, true)
        } else {
            real.log.lock().unwrap().clear();
            match real.engine.execute(&real.facts) {
                Ok(_) => Ok(real.log.lock().unwrap().clone()),
                Err(e) => Err(e.to_string()),
            }
        };
        let want: Vec<String> = ["open_end", "current", "open_start"].iter().map(|x| x.to_string()).collect();
        match got {
            Err(e) => return (true, format!("rules with windows 2000..2001, 2000..2200, 2150..2200, 2000.., ..2001, ..2200 evaluated now: {}", e)),
            Ok(got) => {
                if got != want {
                    return (true, format!("rules expired(2000..2001, salience 5) current(2000..2200, 1) future(2150..2200, 4) open_end(2000.., 3) open_start_expired(..2001, 2) open_start(..2200, 0), {}: fired {:?}, expected {:?}", if callback { "execute_with_callback" } else { "execute" }, got, want));
                }
            }
        }
    }
    (false, format!("{} evaluation times (at, 1 ns / 1 ms / 1 s before and after each bound) against 16 effective/expiry combinations; plus far-past / far-future windows through execute and execute_with_callback", tried))
}
fn c02_date_window_search() -> (bool, String) {
    guarded(60, c02_date_window_search_inner)
}

// ------------------------------------------------------------------------------------------------------------------------
// W3: focus histories, lock-on-active, ActivateAgendaGroup actions, activation groups, no-loop across calls
// ------------------------------------------------------------------------------------------------------------------------
#[derive(Clone, Copy, Debug)]
enum Op {
    Exec,
    Focus(&'static str),
    Pop,
    Clear,
    Reset,
    Api(&'static str), // RustRuleEngine::activate_agenda_group
    Enable(&'static str, bool),
    Flag(&'static str, bool),
}

fn rule_set_a() -> Vec<RM> {
    vec![
        rm("G4", 1).agenda("G").act("ag"),
        rm("H2", -1).agenda("H").lock().does(vec![AM::Activate("MAIN")]),
        rm("M3", -2),
        rm("ML", 7).lock().does(vec![AM::Activate("H")]),
        rm("M2", 7).lock(),
        rm("G1", 3).agenda("G").lock(),
        rm("G2", 3).agenda("G").no_loop().act("ag").cond("a").does(vec![AM::Set("x", true)]),
        rm("D1", 20).disabled(),
        rm("G3", 8).agenda("G").act("ag").cond("x").does(vec![AM::Set("x", false)]),
        rm("H1", 0).agenda("H").no_loop().does(vec![AM::Set("a", true)]),
        rm("M1", 10).no_loop().does(vec![AM::Activate("G")]),
    ]
}
/// no rule brings the focus back by itself: it returns by pop / clear / set focus only
fn rule_set_b() -> Vec<RM> {
    vec![
        rm("ML", 4).lock().does(vec![AM::Activate("H")]),
        rm("M2", 4).lock(),
        rm("M0", 9).no_loop().cond("x"),
        rm("H1", 2).agenda("H").lock().does(vec![AM::Set("x", true)]),
        rm("H2", 2).agenda("H").no_loop().act("ag"),
        rm("H3", 2).agenda("H").act("ag"),
        rm("G1", 0).agenda("G").lock().does(vec![AM::Activate("H")]),
        rm("G2", -3).agenda("G").no_loop(),
        rm("D1", 4).disabled().lock(),
    ]
}

fn run_history(rules: &[RM], flags: &[(&str, bool)], ops: &[Op], callback: bool) -> Option<String> {
    let mut model = Model::new(rules, flags, 3);
    let mut real = rig(rules, flags, 3);
    let mut hist = String::new();
    for (k, op) in ops.iter().enumerate() {
        hist.push_str(&format!("{}{:?}", if k == 0 { "" } else { "; " }, op));
        match *op {
            Op::Exec => {
                let want = model.exec(NOON);
                match real.exec(NOON, callback) {
                    Err(e) => return Some(format!("history [{}]: {}", hist, e)),
                    Ok(got) => {
                        if got != want {
                            return Some(format!("history [{}] (max_cycles 3, {}): the last execute fired {:?}, expected {:?}", hist, if callback { "execute_with_callback" } else { "execute_at_time" }, got, want));
                        }
                    }
                }
            }
            Op::Focus(g) => {
                real.engine.set_agenda_focus(g);
                model.set_focus(g);
            }
            Op::Pop => {
                real.engine.pop_agenda_focus();
                model.pop();
            }
            Op::Clear => {
                real.engine.clear_agenda_focus();
                model.clear();
            }
            Op::Reset => {
                real.engine.reset_no_loop_tracking();
                model.fired_no_loop.clear();
            }
            Op::Api(g) => {
                real.engine.activate_agenda_group(g.to_string());
                model.set_focus(g);
            }
            Op::Enable(n, e) => {
                real.engine.knowledge_base().set_rule_enabled(n, e).unwrap();
                model.rules.iter_mut().find(|r| r.name == n).unwrap().enabled = e;
            }
            Op::Flag(kf, v) => {
                real.facts.set(kf, Value::Boolean(v));
                model.flags.insert(kf.to_string(), v);
            }
        }
        let focus = real.engine.get_active_agenda_group().to_string();
        if focus != model.focused() {
            return Some(format!("history [{}]: focused agenda group = {}, expected {}", hist, focus, model.focused()));
        }
    }
    None
}

fn focus_search(rules: Vec<RM>, label: &str, progress: &Arc<Mutex<String>>) -> (bool, String) {
    let menu = [Op::Exec, Op::Focus("G"), Op::Focus("H"), Op::Focus("MAIN"), Op::Pop, Op::Clear, Op::Reset, Op::Api("G"), Op::Enable("D1", true), Op::Flag("x", true)];
    let flags = [("a", false), ("x", false)];
    let max_len = crate::bound(4, 5);
    let mut tried = 0u64;
    let mut stack: std::collections::VecDeque<Vec<Op>> = vec![vec![]].into(); // breadth first: shortest histories first
    while let Some(sq) = stack.pop_front() {
        // every history ends with an execute so that its effect is observed
        let mut ops = sq.clone();
        ops.push(Op::Exec);
        *progress.lock().unwrap() = format!("{} {:?}", label, ops);
        tried += 1;
        if let Some(bad) = run_history(&rules, &flags, &ops, false) {
            return (true, format!("rules (in insertion order) {}; facts a=false x=false; {}", describe_rules(&rules), bad));
        }
        if sq.len() <= 2 {
            tried += 1;
            if let Some(bad) = run_history(&rules, &flags, &ops, true) {
                return (true, format!("rules (in insertion order) {}; facts a=false x=false; {}", describe_rules(&rules), bad));
            }
        }
        if sq.len() < max_len {
            for op in menu.iter() {
                let mut n = sq.clone();
                n.push(*op);
                stack.push_back(n);
            }
        }
    }
    (false, format!("{} histories of <= {} operations from {{execute, set focus G/H/MAIN, pop, clear, reset no-loop, activate_agenda_group(G), enable D1, x := true}} + a final execute, on rule set {} ({} rules: agenda groups MAIN/G/H, lock-on-active, ActivateAgendaGroup actions, an activation group, no-loop)", tried, max_len, label, rules.len()))
}
fn c02_focus_history_search_a_inner(progress: &Arc<Mutex<String>>) -> (bool, String) {
    focus_search(rule_set_a(), "A", progress)
}
fn c02_focus_history_search_b_inner(progress: &Arc<Mutex<String>>) -> (bool, String) {
    focus_search(rule_set_b(), "B", progress)
}
fn c02_focus_history_search_a() -> (bool, String) {
    guarded(crate::bound(120, 900) as u64, c02_focus_history_search_a_inner)
}
fn c02_focus_history_search_b() -> (bool, String) {
    guarded(crate::bound(120, 900) as u64, c02_focus_history_search_b_inner)
}

// ------------------------------------------------------------------------------------------------------------------------
// W4: activation groups: per pass only the highest-salience rule of a group whose condition holds fires
// ------------------------------------------------------------------------------------------------------------------------
fn c02_activation_group_search_inner(progress: &Arc<Mutex<String>>) -> (bool, String) {
    let flags_names = ["c0", "c1", "c2", "c3"];
    let orders: [[usize; 5]; 3] = [[0, 1, 2, 3, 4], [3, 4, 1, 0, 2], [2, 0, 4, 3, 1]];
    let mut tried = 0u64;
    for sal_bits in 0..81usize {
        // salience of the four group rules from {-1, 0, 2}
        let sal: Vec<i32> = (0..4).map(|k| [-1, 0, 2][(sal_bits / 3usize.pow(k as u32)) % 3]).collect();
        for cond_bits in 0..16usize {
            for (oi, order) in orders.iter().enumerate() {
                // the second and third insertion order for a third of the assignments (thorough tier: for all)
                if oi > 0 && (sal_bits + cond_bits) % 3 != 0 && !crate::thorough() {
                    continue;
                }
                let mut base: Vec<RM> = (0..4).map(|k| rm(&format!("a{}", k), sal[k]).act(if k == 3 && sal_bits % 2 == 1 { "other" } else { "ag" }).cond(flags_names[k])).collect();
                // a rule outside every group, tied with salience 0; when it fires it makes a0's condition true for the next pass
                base.push(rm("free", 0).does(vec![AM::Set("c0", true)]));
                let rules: Vec<RM> = order.iter().map(|k| base[*k].clone()).collect();
                let flags: Vec<(&str, bool)> = (0..4).map(|k| (flags_names[k], (cond_bits >> k) & 1 == 1)).collect();
                *progress.lock().unwrap() = format!("{} flags {:?}", describe_rules(&rules), flags);
                tried += 1;
                let mut model = Model::new(&rules, &flags, 2);
                let mut real = rig(&rules, &flags, 2);
                let want = model.exec(NOON);
                match real.exec(NOON, tried % 2 == 0) {
                    Err(e) => return (true, format!("rules {}; facts {:?}; one execute, max_cycles 2: {}", describe_rules(&rules), flags, e)),
                    Ok(got) => {
                        if got != want {
                            return (true, format!("rules (in insertion order) {}; facts {:?}; one execute, max_cycles 2: fired {:?}, expected {:?}", describe_rules(&rules), flags, got, want));
                        }
                    }
                }
            }
        }
    }
    (false, format!("{} rule sets: 4 rules of one or two activation groups with saliences from {{-1,0,2}} (all assignments), every truth assignment of their conditions, a free rule that enables a0 for the second pass, three insertion orders ({}); 2 passes", tried, if crate::thorough() { "all three for every assignment" } else { "the second and third for a third of the assignments" }))
}
fn c02_activation_group_search() -> (bool, String) {
    guarded(crate::bound(60, 900) as u64, c02_activation_group_search_inner)
}

// ------------------------------------------------------------------------------------------------------------------------
// W5: no-loop across several execute calls and reset_no_loop_tracking
// ------------------------------------------------------------------------------------------------------------------------
fn c02_no_loop_history_search_inner(progress: &Arc<Mutex<String>>) -> (bool, String) {
    let rules = vec![
        rm("plain", 0).cond("p").does(vec![AM::Set("p", false)]),
        rm("once_a", 2).no_loop().cond("a").does(vec![AM::Set("p", true)]),
        rm("once_b", 2).no_loop().does(vec![AM::Set("a", true)]),
        rm("once_c", -1).no_loop().cond("p"),
    ];
    let menu = [Op::Exec, Op::Reset, Op::Flag("a", false), Op::Flag("p", true), Op::Enable("once_b", false), Op::Enable("once_b", true)];
    let flags = [("a", false), ("p", false)];
    let max_len = crate::bound(5, 7);
    let mut tried = 0u64;
    let mut stack: std::collections::VecDeque<Vec<Op>> = vec![vec![]].into(); // breadth first: shortest histories first
    while let Some(sq) = stack.pop_front() {
        let mut ops = sq.clone();
        ops.push(Op::Exec);
        *progress.lock().unwrap() = format!("{:?}", ops);
        tried += 1;
        if let Some(bad) = run_history(&rules, &flags, &ops, tried % 3 == 0) {
            return (true, format!("rules (in insertion order) {}; facts a=false p=false; {}", describe_rules(&rules), bad));
        }
        if sq.len() < max_len {
            for op in menu.iter() {
                let mut n = sq.clone();
                n.push(*op);
                stack.push_back(n);
            }
        }
    }
    (false, format!("{} histories of <= {} operations from {{execute, reset_no_loop_tracking, a := false, p := true, disable/enable once_b}} + a final execute on 3 no-loop rules and a plain one that trigger each other", tried, max_len))
}
fn c02_no_loop_history_search() -> (bool, String) {
    guarded(crate::bound(60, 900) as u64, c02_no_loop_history_search_inner)
}

pub fn witnesses() -> Vec<crate::W> {
    vec![
        ("c02_salience_order_search", c02_salience_order_search),
        ("c02_date_window_search", c02_date_window_search),
        ("c02_focus_history_search_a", c02_focus_history_search_a),
        ("c02_focus_history_search_b", c02_focus_history_search_b),
        ("c02_activation_group_search", c02_activation_group_search),
        ("c02_no_loop_history_search", c02_no_loop_history_search),
    ]
}
