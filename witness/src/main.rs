//! Replays of concrete histories against the REAL crate (public API only).
//! `witness <name>` prints `REPRODUCED <name> ...` (the defect shows) or `NOT-REPRODUCED <name> ...`.
//! Exit status is always 0 unless the name is unknown; the caller reads the line.
use rust_rule_engine::streaming::event::StreamEvent;
use rust_rule_engine::streaming::window::{TimeWindow, WindowType};
use std::collections::HashMap;
use std::time::Duration;

fn ev(ts: u64) -> StreamEvent {
    StreamEvent::with_timestamp("E", HashMap::new(), "w", ts)
}

/// C12: record 100, 10 (late), 120 into a 50 ms sliding window: event 10 must not be retained
fn c12_late_event_retained() -> (bool, String) {
    let mut w = TimeWindow::new(WindowType::Sliding, Duration::from_millis(50), 0, 100);
    w.record(ev(100));
    w.record(ev(10));
    w.record(ev(120));
    let ts: Vec<u64> = w.events().iter().map(|e| e.metadata.timestamp).collect();
    let bad = ts.iter().any(|t| *t < w.start_time);
    (bad, format!("retained={:?} start_time={}", ts, w.start_time))
}

fn main() {
    let name = std::env::args().nth(1).unwrap_or_default();
    let all: Vec<(&str, fn() -> (bool, String))> = vec![("c12_late_event_retained", c12_late_event_retained)];
    let mut ran = false;
    for (n, f) in &all {
        if name == *n || name == "all" {
            ran = true;
            let r = std::panic::catch_unwind(|| f());
            match r {
                Ok((true, d)) => println!("REPRODUCED {} {}", n, d),
                Ok((false, d)) => println!("NOT-REPRODUCED {} {}", n, d),
                Err(_) => println!("REPRODUCED {} panicked", n),
            }
        }
    }
    if !ran {
        eprintln!("unknown witness {name}");
        std::process::exit(2);
    }
}
