//! Replays and bounded witness searches against the REAL crate (public API only).
//!
//!   witness <filter>      runs every witness whose name starts with <filter> (e.g. `c10`, `c12_late`, `all`)
//!
//! Each witness prints one line: `REPRODUCED <name> <concrete failing input>` (the real code violates the
//! property on that input) or `NOT-REPRODUCED <name> <what was tried>`.  A witness never decides that a
//! property HOLDS — that is the verifier's job — it only supplies concrete failing inputs for replay.
mod c01;
mod c01b;
mod c01c;
mod c01d;
mod facts_nested;
mod c02;
mod c03;
mod c13;
mod c15;
mod c16b;
mod c16c;
mod c10b;
mod search_frames;
mod exec_writes;
mod engine_loop;
mod c12b;
mod c12c;
mod c06;
mod c06c;
mod c07;
mod c08;
mod c05b;
mod c05c;
mod c05d;
mod c04;
mod c05;
mod c09;
mod c10;
mod c12;
mod c17;
mod c19;
mod c20;
mod alpha_index;
mod join;
mod working_memory;
mod rete_agenda;
mod rete_frame;
mod modules;
mod agenda_mgr;
mod engine_agenda_actions;
mod bc_memo;
mod c11b;

pub type W = (&'static str, fn() -> (bool, String));

/// `true` in the thorough tier (`VERIF_TIER=thorough`, set by tool/check.py --tier thorough); quick is the default.
pub fn thorough() -> bool {
    static T: std::sync::OnceLock<bool> = std::sync::OnceLock::new();
    *T.get_or_init(|| std::env::var("VERIF_TIER").map(|v| v == "thorough").unwrap_or(false))
}

/// the bound of a search: `quick` in the quick tier (run on every change), `thorough` in the thorough tier.
pub fn bound(quick: usize, thorough: usize) -> usize {
    if crate::thorough() { thorough } else { quick }
}

fn main() {
    let name = std::env::args().nth(1).unwrap_or_default();
    let mut all: Vec<W> = Vec::new();
    all.extend(c01::witnesses());
    all.extend(c01b::witnesses());
    all.extend(c01c::witnesses());
    all.extend(c01d::witnesses());
    all.extend(c01d::open_finding_witnesses());
    all.extend(facts_nested::witnesses());
    all.extend(c02::witnesses());
    all.extend(c03::witnesses());
    all.extend(c13::witnesses());
    all.extend(c15::witnesses());
    all.extend(c16b::witnesses());
    all.extend(c16c::witnesses());
    all.extend(c10b::witnesses());
    all.extend(search_frames::witnesses());
    all.extend(exec_writes::witnesses());
    all.extend(engine_loop::witnesses());
    all.extend(c12b::witnesses());
    all.extend(c12c::witnesses());
    all.extend(c06::witnesses());
    all.extend(c06c::witnesses());
    all.extend(c06c::open_finding_witnesses());
    all.extend(c07::witnesses());
    all.extend(c08::witnesses());
    all.extend(c05b::witnesses());
    all.extend(c05c::witnesses());
    all.extend(c05d::witnesses());
    all.extend(c04::witnesses());
    all.extend(c05::witnesses());
    all.extend(c09::witnesses());
    all.extend(c10::witnesses());
    all.extend(c12::witnesses());
    all.extend(c17::witnesses());
    all.extend(c19::witnesses());
    all.extend(c20::witnesses());
    all.extend(c20::open_finding_witnesses());
    all.extend(alpha_index::witnesses());
    all.extend(join::witnesses());
    all.extend(working_memory::witnesses());
    all.extend(rete_agenda::witnesses());
    all.extend(rete_frame::witnesses());
    all.extend(modules::witnesses());
    all.extend(agenda_mgr::witnesses());
    all.extend(engine_agenda_actions::witnesses());
    all.extend(bc_memo::witnesses());
    all.extend(c11b::witnesses());
    let mut ran = false;
    for (n, f) in &all {
        if name == "all" || n.starts_with(&name) {
            ran = true;
            let f = *f;
            let r = std::panic::catch_unwind(move || f());
            match r {
                Ok((true, d)) => println!("REPRODUCED {} {}", n, d),
                Ok((false, d)) => println!("NOT-REPRODUCED {} {}", n, d),
                Err(_) => println!("REPRODUCED {} panicked", n),
            }
        }
    }
    if !ran {
        eprintln!("unknown witness {name}");
        std::process::exit(2);
    }
}
