//! C08 witness searches: truth maintenance keeps exactly the facts that still have support.
//!
//! Bounded enumeration of histories of explicit insertions, logical insertions with premises, further
//! justifications for an existing derived fact (same / different rule name) and retractions (of explicit and of
//! derived facts), every premise live when its justification is recorded, replayed
//!   * on `TruthMaintenanceSystem` directly (handles 1..=5), and
//!   * through `IncrementalEngine` (insert_explicit / insert_logical / retract, a further justification recorded
//!     through `tms_mut()`, and a retraction issued by a rule's action during fire_all).
//!
//! REFERENCE (from the statement): a fact is present iff it was inserted explicitly and not retracted, or it was
//! inserted logically, not retracted itself, and at least one of its justifications has all premises present;
//! a retraction removes (and, for the TMS, returns) exactly the facts it leaves without support.  Histories whose
//! justification graph would become cyclic (a further justification whose premise depends on the justified fact)
//! are NOT enumerated: there the statement's "present exactly when supported" has two fixpoints.
//! A retracted handle is never used again (handles are not reused).
//!
//! Register in main.rs with `mod c08;` and `all.extend(c08::witnesses());`.
use rust_rule_engine::rete::propagation::IncrementalEngine;
use rust_rule_engine::rete::tms::TruthMaintenanceSystem;
use rust_rule_engine::rete::{ActionResult, AlphaNode, FactHandle, ReteUlNode, TypedFacts, TypedReteUlRule};
use std::collections::BTreeSet;
use std::sync::{Arc, Mutex};

#[derive(Clone, Debug)]
enum Op {
    /// new explicitly inserted fact
    E,
    /// new logically inserted fact, rule R0, premises (indices of present facts)
    L(Vec<usize>),
    /// further justification for an existing present derived fact: (fact, rule 0 = same name as its first / 1 = other name, premises)
    J(usize, u8, Vec<usize>),
    /// retract a present fact through the plain API
    R(usize),
    /// (engine only) retract a present fact from a rule's action during fire_all
    RA(usize),
}

fn show(h: &[Op]) -> String {
    let mut n = 0usize;
    let mut out = Vec::new();
    for op in h {
        match op {
            Op::E => {
                n += 1;
                out.push(format!("f{} = explicit", n));
            }
            Op::L(ps) => {
                n += 1;
                out.push(format!("f{} = logical by R0 from {:?}", n, ps.iter().map(|p| format!("f{}", p + 1)).collect::<Vec<_>>()));
            }
            Op::J(f, r, ps) => out.push(format!(
                "justify f{} by R{} from {:?}",
                f + 1,
                r,
                ps.iter().map(|p| format!("f{}", p + 1)).collect::<Vec<_>>()
            )),
            Op::R(f) => out.push(format!("retract f{}", f + 1)),
            Op::RA(f) => out.push(format!("retract f{} from a rule action in fire_all", f + 1)),
        }
    }
    out.join("; ")
}

/// the reference, written from the statement
#[derive(Clone, Default)]
struct Model {
    explicit: Vec<bool>,
    justs: Vec<Vec<Vec<usize>>>,
    present: Vec<bool>,
}

impl Model {
    fn n(&self) -> usize {
        self.present.len()
    }
    fn supported(&self, f: usize) -> bool {
        self.justs[f].iter().any(|ps| ps.iter().all(|&p| self.present[p]))
    }
    /// does `p` depend (through any justification, transitively) on `h`?
    fn depends_on(&self, p: usize, h: usize) -> bool {
        if p == h {
            return true;
        }
        self.justs[p].iter().any(|ps| ps.iter().any(|&q| self.depends_on(q, h)))
    }
    /// applies the operation; for a retraction returns the facts (other than the retracted one) that lose their support
    fn apply(&mut self, op: &Op) -> BTreeSet<usize> {
        let mut gone = BTreeSet::new();
        match op {
            Op::E => {
                self.explicit.push(true);
                self.justs.push(vec![]);
                self.present.push(true);
            }
            Op::L(ps) => {
                self.explicit.push(false);
                self.justs.push(vec![ps.clone()]);
                self.present.push(true);
            }
            Op::J(f, _, ps) => self.justs[*f].push(ps.clone()),
            Op::R(h) | Op::RA(h) => {
                self.present[*h] = false;
                loop {
                    let mut changed = false;
                    for f in 0..self.n() {
                        if self.present[f] && !self.explicit[f] && !self.supported(f) {
                            self.present[f] = false;
                            gone.insert(f);
                            changed = true;
                        }
                    }
                    if !changed {
                        break;
                    }
                }
            }
        }
        gone
    }
    fn premise_sets(&self, exclude: Option<usize>) -> Vec<Vec<usize>> {
        let live: Vec<usize> = (0..self.n()).filter(|&f| self.present[f] && Some(f) != exclude).collect();
        let mut out = Vec::new();
        for (i, &a) in live.iter().enumerate() {
            out.push(vec![a]);
            for &b in &live[i + 1..] {
                out.push(vec![a, b]);
            }
        }
        out
    }
    fn ops(&self, max_facts: usize, rule_action_retract: bool) -> Vec<Op> {
        let mut v = Vec::new();
        if self.n() < max_facts {
            v.push(Op::E);
            for ps in self.premise_sets(None) {
                v.push(Op::L(ps));
            }
        }
        for f in 0..self.n() {
            if self.present[f] && !self.explicit[f] {
                for ps in self.premise_sets(Some(f)) {
                    if ps.iter().any(|&p| self.depends_on(p, f)) {
                        continue; // would close a cycle: not enumerated (see module comment)
                    }
                    v.push(Op::J(f, 0, ps.clone()));
                    v.push(Op::J(f, 1, ps));
                }
            }
        }
        for f in 0..self.n() {
            if self.present[f] {
                v.push(Op::R(f));
                if rule_action_retract {
                    v.push(Op::RA(f));
                }
            }
        }
        v
    }
}

/// all histories of exactly `len` operations (iterative deepening gives a shortest failing history first)
fn enumerate(
    hist: &mut Vec<Op>,
    m: &Model,
    len: usize,
    max_facts: usize,
    ra: bool,
    tried: &mut u64,
    check: &dyn Fn(&[Op]) -> Option<String>,
) -> Option<String> {
    if hist.len() == len {
        // only histories that end in a retraction or a justification can show anything new
        *tried += 1;
        return check(hist);
    }
    for op in m.ops(max_facts, ra) {
        let mut m2 = m.clone();
        m2.apply(&op);
        hist.push(op);
        let r = enumerate(hist, &m2, len, max_facts, ra, tried, check);
        hist.pop();
        if r.is_some() {
            return r;
        }
    }
    None
}

fn rule_name(r: u8) -> String {
    format!("R{}", r)
}

/// replay on the TMS alone: presence is observed through is_explicit / is_logical (both sets are maintained by
/// retract_with_cascade) and through the handles the cascade returns
fn check_tms(h: &[Op]) -> Option<String> {
    let mut tms = TruthMaintenanceSystem::new();
    let mut m = Model::default();
    let hd = |i: usize| FactHandle::new(i as u64 + 1);
    for (step, op) in h.iter().enumerate() {
        let before = m.clone();
        let expect_gone = m.apply(op);
        match op {
            Op::E => tms.add_explicit_justification(hd(m.n() - 1)),
            Op::L(ps) => tms.add_logical_justification(hd(m.n() - 1), rule_name(0), ps.iter().map(|&p| hd(p)).collect()),
            Op::J(f, r, ps) => tms.add_logical_justification(hd(*f), rule_name(*r), ps.iter().map(|&p| hd(p)).collect()),
            Op::R(f) | Op::RA(f) => {
                let got = tms.retract_with_cascade(hd(*f));
                let got_set: BTreeSet<usize> = got.iter().map(|x| x.id() as usize - 1).collect();
                if got_set != expect_gone {
                    return Some(format!(
                        "TMS: {} -- step {}: retract_with_cascade(f{}) returned {:?}, expected exactly {:?}",
                        show(h),
                        step + 1,
                        f + 1,
                        got.iter().map(|x| format!("f{}", x.id())).collect::<Vec<_>>(),
                        expect_gone.iter().map(|x| format!("f{}", x + 1)).collect::<Vec<_>>()
                    ));
                }
            }
        }
        for f in 0..m.n() {
            let present = tms.is_explicit(hd(f)) || tms.is_logical(hd(f));
            if present != m.present[f] {
                return Some(format!(
                    "TMS: {} -- after step {}: f{} is {} (is_explicit || is_logical), expected {}",
                    show(h),
                    step + 1,
                    f + 1,
                    if present { "present" } else { "absent" },
                    if m.present[f] { "present" } else { "absent" }
                ));
            }
            let valid = tms.has_valid_justification(hd(f));
            if m.present[f] && !valid {
                return Some(format!("TMS: {} -- after step {}: has_valid_justification(f{}) = false for a fact that has support", show(h), step + 1, f + 1));
            }
            // a derived fact that lost its support in this step must not be reported as justified
            if before.present.get(f) == Some(&true) && expect_gone.contains(&f) && valid {
                return Some(format!("TMS: {} -- after step {}: has_valid_justification(f{}) = true for a fact left without support", show(h), step + 1, f + 1));
            }
        }
    }
    None
}

fn data(i: usize) -> TypedFacts {
    let mut t = TypedFacts::new();
    t.set("id", i as i64);
    t
}

/// replay through the engine: presence is what working memory shows (by handle, by type, in the full listing)
fn check_engine(h: &[Op]) -> Option<String> {
    let mut e = IncrementalEngine::new();
    // rule Zap: fires on a Trigger fact; its action retracts the handle found in `target` and the trigger itself
    let target: Arc<Mutex<Option<FactHandle>>> = Arc::new(Mutex::new(None));
    let t2 = target.clone();
    e.add_rule(
        TypedReteUlRule {
            name: "Zap".to_string(),
            node: ReteUlNode::UlAlpha(AlphaNode { field: "Trigger.go".to_string(), operator: "==".to_string(), value: "true".to_string() }),
            priority: 0,
            no_loop: true,
            action: Arc::new(move |facts, results| {
                if let Some(t) = t2.lock().unwrap().take() {
                    results.add(ActionResult::Retract(t));
                }
                if let Some(me) = facts.get_fact_handle("Trigger") {
                    results.add(ActionResult::Retract(me));
                }
            }),
        },
        vec!["Trigger".to_string()],
    );
    let mut m = Model::default();
    let mut hs: Vec<FactHandle> = Vec::new();
    for (step, op) in h.iter().enumerate() {
        m.apply(op);
        match op {
            Op::E => {
                // alternate between the two explicit entry points
                let i = m.n() - 1;
                let hd = if i % 2 == 0 { e.insert_explicit("P".to_string(), data(i)) } else { e.insert("P".to_string(), data(i)) };
                hs.push(hd);
            }
            Op::L(ps) => {
                let i = m.n() - 1;
                let hd = e.insert_logical("D".to_string(), data(i), rule_name(0), ps.iter().map(|&p| hs[p]).collect());
                hs.push(hd);
            }
            Op::J(f, r, ps) => e.tms_mut().add_logical_justification(hs[*f], rule_name(*r), ps.iter().map(|&p| hs[p]).collect()),
            Op::R(f) => {
                if let Err(err) = e.retract(hs[*f]) {
                    return Some(format!("engine: {} -- step {}: retract of a present fact failed: {}", show(h), step + 1, err));
                }
            }
            Op::RA(f) => {
                *target.lock().unwrap() = Some(hs[*f]);
                e.reset();
                let mut t = TypedFacts::new();
                t.set("go", true);
                e.insert("Trigger".to_string(), t);
                let fired = e.fire_all();
                if fired != vec!["Zap".to_string()] {
                    return Some(format!("engine: {} -- step {}: the retracting rule fired {:?} (expected once)", show(h), step + 1, fired));
                }
            }
        }
        let distinct: BTreeSet<u64> = hs.iter().map(|x| x.id()).collect();
        if distinct.len() != hs.len() {
            return Some(format!("engine: {} -- step {}: a handle was handed out twice: {:?}", show(h), step + 1, hs));
        }
        let wm = e.working_memory();
        for f in 0..m.n() {
            let ty = if m.explicit[f] { "P" } else { "D" };
            let by_handle = wm.get(&hs[f]).is_some();
            let by_type = wm.get_by_type(ty).iter().filter(|x| x.handle == hs[f]).count();
            let in_all = wm.get_all_facts().iter().filter(|x| x.handle == hs[f]).count();
            let exp = m.present[f];
            if by_handle != exp || by_type != exp as usize || in_all != exp as usize {
                return Some(format!(
                    "engine: {} -- after step {}: f{} expected {}, working memory: get = {}, get_by_type({}) lists it {} time(s), get_all_facts lists it {} time(s)",
                    show(h),
                    step + 1,
                    f + 1,
                    if exp { "present" } else { "absent" },
                    by_handle,
                    ty,
                    by_type,
                    in_all
                ));
            }
            let tms_present = e.tms().is_explicit(hs[f]) || e.tms().is_logical(hs[f]);
            if tms_present != exp {
                return Some(format!("engine: {} -- after step {}: f{} expected {}, the engine's TMS says present = {}", show(h), step + 1, f + 1, if exp { "present" } else { "absent" }, tms_present));
            }
        }
        let live_expected = m.present.iter().filter(|p| **p).count();
        let live_listed = wm.get_all_facts().iter().filter(|x| x.fact_type != "Trigger").count();
        if live_listed != live_expected {
            return Some(format!("engine: {} -- after step {}: {} facts listed, {} expected", show(h), step + 1, live_listed, live_expected));
        }
    }
    None
}

fn run(what: &str, max_ops: usize, max_facts: usize, ra: bool, check: &dyn Fn(&[Op]) -> Option<String>) -> (bool, String) {
    let mut tried = 0u64;
    for len in 1..=max_ops {
        let mut hist = Vec::new();
        if let Some(v) = enumerate(&mut hist, &Model::default(), len, max_facts, ra, &mut tried, check) {
            return (true, v);
        }
    }
    (false, format!("{}: {} histories of <= {} operations over <= {} facts (acyclic justifications, premises live when recorded), all as the reference", what, tried, max_ops, max_facts))
}

fn c08_tms_history_search() -> (bool, String) {
    run("TruthMaintenanceSystem", crate::bound(6, 7), 5, false, &check_tms)
}

fn c08_engine_history_search() -> (bool, String) {
    run("IncrementalEngine insert_explicit/insert/insert_logical/tms_mut().add_logical_justification/retract/retract from a rule action", crate::bound(6, 7), 4, true, &check_engine)
}

/// a few longer fixed shapes beyond the enumeration bound (7-9 operations, 6-7 facts), on both levels
fn c08_long_shapes() -> (bool, String) {
    let shapes: Vec<Vec<Op>> = vec![
        // chain of 5 under one root, root retracted
        vec![Op::E, Op::L(vec![0]), Op::L(vec![1]), Op::L(vec![2]), Op::L(vec![3]), Op::L(vec![4]), Op::R(0)],
        // chain, middle derived fact retracted, then the root
        vec![Op::E, Op::L(vec![0]), Op::L(vec![1]), Op::L(vec![2]), Op::L(vec![3]), Op::R(2), Op::R(0)],
        // two roots, diamond on each, a top fact justified once per diamond; roots retracted one after the other
        vec![
            Op::E,
            Op::E,
            Op::L(vec![0]),
            Op::L(vec![0]),
            Op::L(vec![1]),
            Op::L(vec![2, 3]),
            Op::J(5, 1, vec![4]),
            Op::R(0),
            Op::R(1),
        ],
        // same, other order
        vec![
            Op::E,
            Op::E,
            Op::L(vec![0]),
            Op::L(vec![0]),
            Op::L(vec![1]),
            Op::L(vec![2, 3]),
            Op::J(5, 0, vec![4]),
            Op::R(1),
            Op::R(0),
        ],
        // shared premise with three dependents, one sibling retracted first, then the shared premise
        vec![Op::E, Op::L(vec![0]), Op::L(vec![0]), Op::L(vec![0]), Op::L(vec![1, 2]), Op::R(2), Op::R(0)],
        // three justifications for one fact, premises retracted in every order is covered by the search; here with a dependent chain
        vec![Op::E, Op::E, Op::E, Op::L(vec![0]), Op::J(3, 0, vec![1]), Op::J(3, 1, vec![2]), Op::L(vec![3]), Op::R(0), Op::R(2), Op::R(1)],
    ];
    for s in &shapes {
        if let Some(v) = check_tms(s) {
            return (true, v);
        }
        if let Some(v) = check_engine(s) {
            return (true, v);
        }
        // the same shape with every retraction issued from a rule action
        let s2: Vec<Op> = s.iter().map(|o| if let Op::R(f) = o { Op::RA(*f) } else { o.clone() }).collect();
        if let Some(v) = check_engine(&s2) {
            return (true, v);
        }
    }
    (false, format!("{} fixed histories of 7-10 operations over 5-7 facts (long chains, two diamonds under one top fact, three justifications) on the TMS and through the engine", shapes.len()))
}

pub fn witnesses() -> Vec<crate::W> {
    vec![
        ("c08_tms_history_search", c08_tms_history_search as fn() -> (bool, String)),
        ("c08_engine_history_search", c08_engine_history_search as fn() -> (bool, String)),
        ("c08_long_shapes", c08_long_shapes as fn() -> (bool, String)),
    ]
}
