//! C14 witnesses (StreamJoinNode).  Wire into main.rs with `mod join;` + `all.extend(join::witnesses());`.
use rust_rule_engine::rete::stream_join_node::{JoinStrategy, JoinType, StreamJoinNode};
use rust_rule_engine::streaming::event::{EventMetadata, StreamEvent};
use rust_rule_engine::types::Value;
use std::collections::HashMap;
use std::time::Duration;

fn ev(id: &str, src: &str, ts: u64, key: Option<&str>) -> StreamEvent {
    let mut data = HashMap::new();
    if let Some(k) = key {
        data.insert("key".to_string(), Value::String(k.to_string()));
    }
    StreamEvent {
        id: id.to_string(),
        event_type: "t".to_string(),
        data,
        metadata: EventMetadata { timestamp: ts, source: src.to_string(), sequence: 0, tags: HashMap::new() },
    }
}

fn node(secs: u64, cond: fn(&StreamEvent, &StreamEvent) -> bool) -> StreamJoinNode {
    StreamJoinNode::new(
        "left".into(),
        "right".into(),
        JoinType::Inner,
        JoinStrategy::TimeWindow { duration: Duration::from_secs(secs) },
        Box::new(|e| e.data.get("key").and_then(|v| v.as_string())),
        Box::new(|e| e.data.get("key").and_then(|v| v.as_string())),
        Box::new(cond),
    )
}

/// Same-side events that share (id, timestamp) share ONE matched flag (flags are keyed by "{id}_{timestamp}").
/// Evicting one of them clears the flag of the other; the next watermark re-scan then emits an already emitted pair again.
fn c14_flag_collision_duplicate() -> (bool, String) {
    let mut n = node(10, |_, _| true);
    let mut total = 0;
    total += n.process_left(ev("a", "left", 0, Some("A"))).len(); // l1
    total += n.process_left(ev("y", "left", 100, Some("B"))).len(); // fresh event in front of l2
    total += n.process_left(ev("a", "left", 0, Some("B"))).len(); // l2: same id and timestamp as l1
    total += n.process_right(ev("r", "right", 5, Some("B"))).len(); // emits (l2, r)
    total += n.update_watermark(12).len(); // evicts l1 only, removes flag "a_0"
    let again = n.update_watermark(12).len(); // re-scan: (l2, r) once more
    total += again;
    (
        total != 1,
        format!("window=10: L(id=a,key=A,ts=0) L(id=y,key=B,ts=100) L(id=a,key=B,ts=0) R(id=r,key=B,ts=5) WM(12) WM(12): {} pairs emitted, reference join has 1; second WM re-emitted {}", total, again),
    )
}

/// timestamps >= 2^63 are outside the contract (`requires ts_ok`): the `as i64` cast wraps and the subtraction overflows
#[allow(dead_code)]
fn c14_timestamp_overflow() -> (bool, String) {
    let r = std::panic::catch_unwind(|| {
        let mut n = node(10, |_, _| true);
        n.process_left(ev("l", "left", 1u64 << 63, Some("A")));
        n.process_right(ev("r", "right", 5, Some("A"))).len()
    });
    (r.is_err(), format!("window=10: L(ts=2^63,key=A) R(ts=5,key=A): {:?} (debug build: `attempt to subtract with overflow` in is_within_window)", r.as_ref().ok()))
}

/// every sequence over `dom` of length 0..=max_len, in the order []; a; a,a; a,a,a; ..; a,a,b; .. (a prefix before its extensions)
fn all_sequences<T: Copy>(dom: &[T], max_len: usize) -> Vec<Vec<T>> {
    fn go<T: Copy>(dom: &[T], max_len: usize, cur: &mut Vec<T>, out: &mut Vec<Vec<T>>) {
        out.push(cur.clone());
        if cur.len() < max_len {
            for x in dom {
                cur.push(*x);
                go(dom, max_len, cur, out);
                cur.pop();
            }
        }
    }
    let mut out = Vec::new();
    go(dom, max_len, &mut Vec::new(), &mut out);
    out
}

/// bounded search over the QUANTIFIER of C14 with pairwise distinct event ids and no eviction: all pairs of streams of up
/// to 2+2 events (keys A, B, none; timestamps 0, 5, 11; window 10; two join conditions), every merge, with and without
/// `update_watermark(0)` after each arrival.  Emitted multiset must equal the reference join.
fn c14_interleaving_search() -> (bool, String) {
    let keys = [Some("A"), Some("B"), None];
    let tss = [0u64, 5, 11];
    let mut shapes: Vec<(Option<&str>, u64)> = Vec::new();
    for k in keys {
        for t in tss {
            shapes.push((k, t));
        }
    }
    // quick tier: up to 2 events per side; thorough tier: up to 3 per side and at most 5 in all
    let (max_side, max_total) = (crate::bound(2, 3), crate::bound(4, 5));
    let streams: Vec<Vec<(Option<&str>, u64)>> = all_sequences(&shapes, max_side);
    let conds: [(&str, fn(&StreamEvent, &StreamEvent) -> bool); 2] =
        [("true", |_, _| true), ("l.ts<=r.ts", |l, r| l.metadata.timestamp <= r.metadata.timestamp)];
    let mut runs = 0u64;
    for (cname, cond) in conds {
        for ls in &streams {
            for rs in &streams {
                if ls.len() + rs.len() > max_total {
                    continue;
                }
                let lev: Vec<StreamEvent> = ls.iter().enumerate().map(|(i, (k, t))| ev(&format!("l{}", i), "left", *t, *k)).collect();
                let rev: Vec<StreamEvent> = rs.iter().enumerate().map(|(i, (k, t))| ev(&format!("r{}", i), "right", *t, *k)).collect();
                // reference join
                let mut want: Vec<(String, String)> = Vec::new();
                for l in &lev {
                    for r in &rev {
                        let kl = l.data.get("key").and_then(|v| v.as_string());
                        let kr = r.data.get("key").and_then(|v| v.as_string());
                        let d = (l.metadata.timestamp as i64 - r.metadata.timestamp as i64).abs();
                        if kl.is_some() && kl == kr && d <= 10 && cond(l, r) {
                            want.push((l.id.clone(), r.id.clone()));
                        }
                    }
                }
                want.sort();
                // all merges: bit masks with |ls| ones among |ls|+|rs| positions
                let n = lev.len() + rev.len();
                for mask in 0u32..(1u32 << n) {
                    if mask.count_ones() as usize != lev.len() {
                        continue;
                    }
                    for wm in [false, true] {
                        runs += 1;
                        let mut node = node(10, cond);
                        let (mut li, mut ri) = (0, 0);
                        let mut got: Vec<(String, String)> = Vec::new();
                        let mut order = String::new();
                        for p in 0..n {
                            let out = if mask & (1 << p) != 0 {
                                order.push('L');
                                li += 1;
                                node.process_left(lev[li - 1].clone())
                            } else {
                                order.push('R');
                                ri += 1;
                                node.process_right(rev[ri - 1].clone())
                            };
                            for j in out {
                                got.push((j.left.unwrap().id, j.right.unwrap().id));
                            }
                            if wm {
                                for j in node.update_watermark(0) {
                                    got.push((j.left.unwrap().id, j.right.unwrap().id));
                                }
                            }
                        }
                        got.sort();
                        if got != want {
                            return (true, format!("cond={} left={:?} right={:?} order={} watermark_calls={}: emitted {:?}, reference {:?}", cname, ls, rs, order, wm, got, want));
                        }
                    }
                }
            }
        }
    }
    (false, format!("{} runs (streams up to {}+{}{}, all merges, with/without update_watermark(0)): emitted multiset == reference join", runs, max_side, max_side, if max_total < 2 * max_side { format!(" with at most {} events in all", max_total) } else { String::new() }))
}

/// second bounded search, for shapes the first one does not reach: one event on one side against up to THREE on the other (one key,
/// timestamps 5, 100, 6, 0 in every order: in-window events need not be contiguous in the buffer), every merge, optionally after an
/// initial `update_watermark(W)` on the EMPTY node (W = 0, 500: nothing can be evicted, but every later event is "late").
/// No watermark call after the first event, so nothing is ever evicted and the emitted multiset must equal the reference join.
fn c14_interleaving_search_one_vs_three() -> (bool, String) {
    let tss = [5u64, 100, 6, 0];
    let max_many = crate::bound(3, 7); // (the name says three: the quick tier's bound)
    let many: Vec<Vec<u64>> = all_sequences(&tss, max_many);
    let mut one: Vec<Vec<u64>> = vec![vec![]];
    for a in tss {
        one.push(vec![a]);
    }
    let cond: fn(&StreamEvent, &StreamEvent) -> bool = |_, _| true;
    let mut runs = 0u64;
    for swap in [false, true] {
        for few in &one {
            for lots in &many {
                let (ls, rs) = if swap { (lots, few) } else { (few, lots) };
                let lev: Vec<StreamEvent> = ls.iter().enumerate().map(|(i, t)| ev(&format!("l{}", i), "left", *t, Some("A"))).collect();
                let rev: Vec<StreamEvent> = rs.iter().enumerate().map(|(i, t)| ev(&format!("r{}", i), "right", *t, Some("A"))).collect();
                let mut want: Vec<(String, String)> = Vec::new();
                for l in &lev {
                    for r in &rev {
                        let d = (l.metadata.timestamp as i64 - r.metadata.timestamp as i64).abs();
                        if d <= 10 {
                            want.push((l.id.clone(), r.id.clone()));
                        }
                    }
                }
                want.sort();
                let n = lev.len() + rev.len();
                for mask in 0u32..(1u32 << n) {
                    if mask.count_ones() as usize != lev.len() {
                        continue;
                    }
                    for w0 in [None, Some(0i64), Some(500i64)] {
                        runs += 1;
                        let mut node = node(10, cond);
                        let mut got: Vec<(String, String)> = Vec::new();
                        if let Some(w) = w0 {
                            for j in node.update_watermark(w) {
                                got.push((j.left.unwrap().id, j.right.unwrap().id));
                            }
                        }
                        let (mut li, mut ri) = (0, 0);
                        let mut order = String::new();
                        for p in 0..n {
                            let out = if mask & (1 << p) != 0 {
                                order.push('L');
                                li += 1;
                                node.process_left(lev[li - 1].clone())
                            } else {
                                order.push('R');
                                ri += 1;
                                node.process_right(rev[ri - 1].clone())
                            };
                            for j in out {
                                got.push((j.left.unwrap().id, j.right.unwrap().id));
                            }
                        }
                        got.sort();
                        if got != want {
                            return (true, format!("key A, window 10, cond=true, left ts={:?} right ts={:?} order={} initial update_watermark={:?} (on the empty node; no later watermark call, nothing evicted): emitted {:?}, reference {:?}", ls, rs, order, w0, got, want));
                        }
                    }
                }
            }
        }
    }
    (false, format!("{} runs (1 vs up to {} events, all merges, optional initial watermark on the empty node): emitted multiset == reference join", runs, max_many))
}

pub fn witnesses() -> Vec<crate::W> {
    vec![
        ("c14_flag_collision_duplicate", c14_flag_collision_duplicate as fn() -> (bool, String)),
        // c14_timestamp_overflow (ts >= 2^63 overflows the i64 subtraction in debug builds) is outside the quantifier (small timestamp domain): kept as a function, not run
        ("c14_interleaving_search", c14_interleaving_search),
        ("c14_interleaving_search_one_vs_three", c14_interleaving_search_one_vs_three),
    ]
}
