//! C12, third part: bounded witness searches for the units aggregator and stream_aggregations — "count, sum, average, min and max
//! of a window equal the same fold over exactly its events".  Every window of <= 4 events whose field "v" is drawn from
//! {Number 10, Integer -3, Number 0, Number 2.5, String "n/a", missing} is aggregated by the REAL crate (Aggregator::aggregate /
//! aggregate_events, the operators.rs Aggregation impls, WindowedStream::aggregate / counts) and compared with a reference fold
//! written from the statement.  NaN / -0.0 / infinities are NOT in the domain: the statement does not fix the answer for them
//! (operators::Min / Max panic on NaN through partial_cmp().unwrap(), TimeWindow::min / max ignore it).
use rust_rule_engine::streaming::aggregator::{AggregationResult, AggregationType, Aggregator};
use rust_rule_engine::streaming::event::StreamEvent;
use rust_rule_engine::streaming::operators::{AggregateResult, Aggregation, Average, Count, Max, Min, Sum, WindowConfig, WindowedStream};
use rust_rule_engine::streaming::window::{TimeWindow, WindowType};
use rust_rule_engine::types::Value;
use std::collections::HashMap;
use std::time::Duration;

fn domain() -> Vec<Option<Value>> {
    vec![
        Some(Value::Number(10.0)),
        Some(Value::Integer(-3)),
        Some(Value::Number(0.0)),
        Some(Value::Number(2.5)),
        Some(Value::String("n/a".into())),
        None,
    ]
}

/// numeric projection from the statement's reading: Number(n) -> n, Integer(i) -> i as f64, anything else / missing -> not numeric
fn num_of(v: &Option<Value>) -> Option<f64> {
    match v {
        Some(Value::Number(n)) => Some(*n),
        Some(Value::Integer(i)) => Some(*i as f64),
        _ => None,
    }
}

fn event(v: &Option<Value>, ts: u64) -> StreamEvent {
    let mut d = HashMap::new();
    if let Some(x) = v {
        d.insert("v".to_string(), x.clone());
    }
    d.insert("other".to_string(), Value::Number(1000.0)); // another numeric field that must never be folded in
    StreamEvent::with_timestamp("E", d, "w", ts)
}

/// all index sequences over 0..n of length 0..=maxlen
fn all_seqs(n: usize, maxlen: usize) -> Vec<Vec<usize>> {
    let mut out: Vec<Vec<usize>> = vec![vec![]];
    let mut frontier: Vec<Vec<usize>> = vec![vec![]];
    for _ in 0..maxlen {
        let mut next = Vec::new();
        for s in &frontier {
            for k in 0..n {
                let mut t = s.clone();
                t.push(k);
                next.push(t);
            }
        }
        out.extend(next.iter().cloned());
        frontier = next;
    }
    out
}

/// the reference folds over exactly the given values, in order (no NaN in the domain, so min / max are the plain order minimum / maximum)
struct Ref {
    count: f64,
    sum: f64,
    avg: Option<f64>,
    min: Option<f64>,
    max: Option<f64>,
}
fn reference(vals: &[Option<Value>]) -> Ref {
    let nums: Vec<f64> = vals.iter().filter_map(num_of).collect();
    let mut sum = 0.0f64;
    for x in &nums {
        sum += *x;
    }
    let mut min: Option<f64> = None;
    let mut max: Option<f64> = None;
    for &x in &nums {
        min = Some(match min { None => x, Some(m) => if x < m { x } else { m } });
        max = Some(match max { None => x, Some(m) => if x > m { x } else { m } });
    }
    Ref { count: vals.len() as f64, sum, avg: if nums.is_empty() { None } else { Some(sum / nums.len() as f64) }, min, max }
}

fn same(a: Option<f64>, b: Option<f64>) -> bool {
    match (a, b) {
        (None, None) => true,
        (Some(x), Some(y)) => x == y, // no NaN in the domain; 0.0 == -0.0 is accepted (an empty sum may be either)
        _ => false,
    }
}

/// AggregationResult -> Some(number) / None for AggregationResult::None; anything else is a mismatch marker
fn ar(r: &AggregationResult) -> Result<Option<f64>, String> {
    match r {
        AggregationResult::Number(n) => Ok(Some(*n)),
        AggregationResult::None => Ok(None),
        o => Err(format!("{:?}", o)),
    }
}
fn or(r: &AggregateResult) -> Result<Option<f64>, String> {
    match r {
        AggregateResult::Number(n) => Ok(Some(*n)),
        AggregateResult::None => Ok(None),
        o => Err(format!("{:?}", o)),
    }
}

/// Aggregator::aggregate(window) and Aggregator::aggregate_events(slice): Count / Sum / Average / Min / Max of field "v"
fn c12_aggregator_search() -> (bool, String) {
    let dom = domain();
    let maxlen = crate::bound(4, 7);
    let seqs = all_seqs(dom.len(), maxlen);
    let f = || "v".to_string();
    for s in &seqs {
        let vals: Vec<Option<Value>> = s.iter().map(|&k| dom[k].clone()).collect();
        let mut w = TimeWindow::new(WindowType::Tumbling, Duration::from_millis(1000), 0, 100);
        let mut evs = Vec::new();
        for (i, v) in vals.iter().enumerate() {
            let e = event(v, (i as u64 * 37 + 5) % 100);
            evs.push(e.clone());
            w.add_event(e);
        }
        let r = reference(&vals);
        let checks: Vec<(&str, AggregationType, Option<f64>)> = vec![
            ("Count", AggregationType::Count, Some(r.count)),
            ("Sum", AggregationType::Sum { field: f() }, Some(r.sum)),
            ("Average", AggregationType::Average { field: f() }, r.avg),
            ("Min", AggregationType::Min { field: f() }, r.min),
            ("Max", AggregationType::Max { field: f() }, r.max),
        ];
        for (name, ty, exp) in checks {
            let a = Aggregator::new(ty);
            let got = a.aggregate(&w);
            match ar(&got) {
                Ok(g) if same(g, exp) => {}
                _ => return (true, format!("Aggregator::aggregate {} over a window with v = {:?}: {:?}, the fold over exactly its events gives {:?}", name, vals, got, exp)),
            }
            if name == "Count" || name == "Sum" || name == "Average" {
                let got = a.aggregate_events(&evs);
                match ar(&got) {
                    Ok(g) if same(g, exp) => {}
                    _ => return (true, format!("Aggregator::aggregate_events {} over events with v = {:?}: {:?}, the fold over exactly the events gives {:?}", name, vals, got, exp)),
                }
            }
        }
    }
    (false, format!("{} windows of <= {} events x (Count, Sum, Average, Min, Max)", seqs.len(), maxlen))
}

fn five(vals: &[Option<Value>], evs: &[StreamEvent]) -> Result<(), String> {
    let r = reference(vals);
    let aggs: Vec<(&str, Box<dyn Aggregation>, Option<f64>)> = vec![
        ("Count", Box::new(Count), Some(r.count)),
        ("Sum", Box::new(Sum::new("v")), Some(r.sum)),
        ("Average", Box::new(Average::new("v")), r.avg),
        ("Min", Box::new(Min::new("v")), r.min),
        ("Max", Box::new(Max::new("v")), r.max),
    ];
    for (name, a, exp) in aggs {
        let got = a.aggregate(evs);
        match or(&got) {
            Ok(g) if same(g, exp) => {}
            _ => return Err(format!("operators::{} over events with v = {:?}: {:?}, the fold over exactly the events gives {:?}", name, vals, got, exp)),
        }
    }
    Ok(())
}

/// the operators.rs Aggregation impls on a slice, and WindowedStream::{aggregate, counts} per tumbling window
fn c12_stream_aggregations_search() -> (bool, String) {
    let dom = domain();
    let maxlen = crate::bound(4, 7); // (the timestamps below need <= 10 events)
    let seqs = all_seqs(dom.len(), maxlen);
    let mut tried = 0u64;
    for s in &seqs {
        let vals: Vec<Option<Value>> = s.iter().map(|&k| dom[k].clone()).collect();
        let evs: Vec<StreamEvent> = vals.iter().enumerate().map(|(i, v)| event(v, i as u64)).collect();
        if let Err(m) = five(&vals, &evs) {
            return (true, m);
        }
        tried += 1;
        // tumbling windows of 10 ms; event i gets a timestamp in window (i*7) % 3, out of order
        let ts: Vec<u64> = (0..vals.len()).map(|i| ((i as u64 * 7) % 3) * 10 + (9 - i as u64)).collect();
        let mut groups: Vec<(u64, Vec<Option<Value>>)> = Vec::new();
        for (i, v) in vals.iter().enumerate() {
            let st = (ts[i] / 10) * 10;
            match groups.iter_mut().find(|g| g.0 == st) {
                Some(g) => g.1.push(v.clone()),
                None => groups.push((st, vec![v.clone()])),
            }
        }
        let mk = || WindowedStream::new(vals.iter().enumerate().map(|(i, v)| event(v, ts[i])).collect(), WindowConfig::tumbling(Duration::from_millis(10)));
        type Pick = fn(&Ref) -> Option<f64>;
        let runs: Vec<(&str, Box<dyn Fn() -> Box<dyn AggFn>>, Pick)> = vec![
            ("Count", Box::new(|| Box::new(Count) as Box<dyn AggFn>), |r| Some(r.count)),
            ("Sum", Box::new(|| Box::new(Sum::new("v")) as Box<dyn AggFn>), |r| Some(r.sum)),
            ("Average", Box::new(|| Box::new(Average::new("v")) as Box<dyn AggFn>), |r| r.avg),
            ("Min", Box::new(|| Box::new(Min::new("v")) as Box<dyn AggFn>), |r| r.min),
            ("Max", Box::new(|| Box::new(Max::new("v")) as Box<dyn AggFn>), |r| r.max),
        ];
        for (name, make, pick) in runs {
            let ws = mk();
            let starts: Vec<u64> = ws.windows().iter().map(|w| w.start_time).collect();
            let got = make().run(ws);
            if got.len() != starts.len() || starts.len() != groups.len() {
                return (true, format!("WindowedStream::aggregate {} v = {:?} ts = {:?}: {} results for {} windows, {} expected", name, vals, ts, got.len(), starts.len(), groups.len()));
            }
            for (k, st) in starts.iter().enumerate() {
                let exp = groups.iter().find(|g| g.0 == *st).map(|g| pick(&reference(&g.1)));
                match (or(&got[k]), exp) {
                    (Ok(g), Some(e)) if same(g, e) => {}
                    _ => return (true, format!("WindowedStream::aggregate {} v = {:?} ts = {:?}: window starting at {} gives {:?}, the fold over exactly its events gives {:?}", name, vals, ts, st, got[k], exp)),
                }
            }
        }
        let ws = mk();
        let starts: Vec<u64> = ws.windows().iter().map(|w| w.start_time).collect();
        let counts = ws.counts();
        for (k, st) in starts.iter().enumerate() {
            let exp = groups.iter().find(|g| g.0 == *st).map(|g| g.1.len());
            if counts.get(k).copied() != exp {
                return (true, format!("WindowedStream::counts v = {:?} ts = {:?}: window starting at {} counts {:?}, it holds {:?} events", vals, ts, st, counts.get(k), exp));
            }
        }
    }
    (false, format!("{} event lists of <= {} events x (Count, Sum, Average, Min, Max), on a slice and per tumbling window", tried, maxlen))
}

/// WindowedStream::aggregate takes the aggregator by value and is generic: one object-safe adapter per aggregator
trait AggFn {
    fn run(self: Box<Self>, ws: WindowedStream) -> Vec<AggregateResult>;
}
impl<A: Aggregation> AggFn for A {
    fn run(self: Box<Self>, ws: WindowedStream) -> Vec<AggregateResult> {
        ws.aggregate(*self)
    }
}

pub fn witnesses() -> Vec<crate::W> {
    vec![
        ("c12_aggregator_search", c12_aggregator_search),
        ("c12_stream_aggregations_search", c12_stream_aggregations_search),
    ]
}
