//! C01: parenthesised arithmetic (documented in docs/core-features/GRL_SYNTAX.md and docs/getting-started/FIRST_RULES.md) through the
//! native engine.  Recorded histories found while putting src/expression.rs under a functional contract (unit expr_assoc).
use rust_rule_engine::engine::facts::Facts;
use rust_rule_engine::engine::knowledge_base::KnowledgeBase;
use rust_rule_engine::engine::{EngineConfig, RustRuleEngine};
use rust_rule_engine::Value;

fn run(grl: &str, set: &[(&str, Value)]) -> Result<(Facts, usize), String> {
    let kb = KnowledgeBase::new("c01c");
    match kb.add_rules_from_grl(grl) {
        Ok(1) => {}
        other => return Err(format!("did not parse into one rule: {:?}", other.map_err(|e| e.to_string()))),
    }
    let mut engine = RustRuleEngine::with_config(kb, EngineConfig { max_cycles: 1, timeout: None, enable_stats: false, debug_mode: false });
    let facts = Facts::new();
    for (k, v) in set {
        facts.set(k, v.clone());
    }
    match engine.execute(&facts) {
        Ok(r) => Ok((facts, r.rules_fired)),
        Err(e) => Err(format!("execute returned Err({})", e)),
    }
}

/// `when (a - b) * c == 10`: the condition regex of the GRL parser is not anchored, the rule is loaded as `c == 10`
fn c01_parenthesised_arithmetic_condition_is_misread() -> (bool, String) {
    let grl = "rule \"P\" { when (a - b) * c == 10 then o = 1; }";
    let mut bad = Vec::new();
    // (10 - 5) * 10 = 50: the condition is false, the rule must not fire
    match run(grl, &[("a", Value::Integer(10)), ("b", Value::Integer(5)), ("c", Value::Integer(10)), ("o", Value::Integer(0))]) {
        Ok((_, fired)) if fired > 0 => bad.push("a=10 b=5 c=10: (a - b) * c = 50, the rule FIRED".to_string()),
        Ok(_) => {}
        Err(e) => bad.push(format!("a=10 b=5 c=10: {}", e)),
    }
    // (10 - 5) * 2 = 10: the condition is true, the rule must fire
    match run(grl, &[("a", Value::Integer(10)), ("b", Value::Integer(5)), ("c", Value::Integer(2)), ("o", Value::Integer(0))]) {
        Ok((_, fired)) if fired == 0 => bad.push("a=10 b=5 c=2: (a - b) * c = 10, the rule did NOT fire".to_string()),
        Ok(_) => {}
        Err(e) => bad.push(format!("a=10 b=5 c=2: {}", e)),
    }
    if bad.is_empty() {
        (false, "`when (a - b) * c == 10` fires exactly when (a - b) * c is 10".into())
    } else {
        (true, format!("GRL `{}`: {}", grl, bad.join("; ")))
    }
}

/// the documented assignment `Order.total = Order.subtotal * (1 - Order.discount);`
fn c01_documented_parenthesised_assignment() -> (bool, String) {
    let grl = "rule \"D\" { when Order.subtotal > 0 then Order.total = Order.subtotal * (1 - Order.discount); }";
    match run(grl, &[("Order.subtotal", Value::Integer(200)), ("Order.discount", Value::Number(0.25)), ("Order.total", Value::Integer(0))]) {
        Ok((f, _)) => {
            let got = f.get_nested("Order.total").or_else(|| f.get("Order.total"));
            let ok = match &got {
                Some(Value::Number(n)) => (*n - 150.0).abs() < 1e-9,
                Some(Value::Integer(i)) => *i == 150,
                _ => false,
            };
            if ok { (false, "Order.total = 150".into()) } else { (true, format!("GRL `{}` with subtotal=200 discount=0.25: Order.total = {:?}, documented value 150", grl, got)) }
        }
        Err(e) => (true, format!("GRL `{}` (docs/core-features/GRL_SYNTAX.md) with subtotal=200 discount=0.25: {}; documented value 150", grl, e)),
    }
}

/// what a recorded text must evaluate to
enum Want {
    Int(i64),
    Num(f64),
    Text(&'static str),
    /// an error value (Err), not a panic and not a value
    Error,
}

/// Recorded texts around the repair of `c01_documented_parenthesised_assignment` (strip_outer_parens in src/expression.rs), straight
/// through `evaluate_expression`: a parenthesised operand is evaluated as the expression between its parentheses wherever it stands
/// and however deeply it is nested; parentheses that are not ONE matching outer pair are not stripped (`(a)(b)`, `(a + b`, `a + b)`
/// stay errors, they are not a value and not a panic); a quoted text that contains parentheses stays that text.  a=10 b=5 c=2 d=8 x=7.
/// The documented FIRST_RULES.md expression `(Order.ItemPrice * Order.Quantity) * 0.1` is among them.
fn c01_documented_parenthesised_operands_recorded() -> (bool, String) {
    use rust_rule_engine::expression::evaluate_expression;
    let facts = Facts::new();
    for (k, v) in [("a", 10i64), ("b", 5), ("c", 2), ("d", 8), ("x", 7), ("Order.ItemPrice", 30), ("Order.Quantity", 4)] {
        facts.set(k, Value::Integer(v));
    }
    facts.set("Order.discount", Value::Number(0.25));
    let cases: Vec<(&str, Want)> = vec![
        ("(a)", Want::Int(10)),
        ("((a))", Want::Int(10)),
        ("( a )", Want::Int(10)),
        ("  ( ( a + b ) )  ", Want::Int(15)),
        ("((a + b))", Want::Int(15)),
        ("(a + b) * c", Want::Int(30)),
        ("a * (b + c)", Want::Int(70)),
        ("a - (b - c)", Want::Int(7)),
        ("a - (b - (c - d))", Want::Int(-1)),
        ("(a + b) * (c - d)", Want::Int(-90)),
        ("((a + b) * c) - (d / (c + c))", Want::Int(28)),
        ("(a) + (b)", Want::Int(15)),
        ("a / (b - 5)", Want::Error),
        ("(Order.ItemPrice * Order.Quantity) * 0.1", Want::Num(12.0)),
        ("200 * (1 - Order.discount)", Want::Num(150.0)),
        ("(3)", Want::Int(3)),
        ("(2.5) * (2)", Want::Num(5.0)),
        // a quoted text is a text, whatever it contains; the parentheses around a quoted text are stripped
        ("\"(x)\"", Want::Text("(x)")),
        ("'(a + b)'", Want::Text("(a + b)")),
        ("(\"(x)\")", Want::Text("(x)")),
        // not ONE matching outer pair: never stripped, an error and not a panic
        ("(a + b", Want::Error),
        ("a + b)", Want::Error),
        ("(a)(b)", Want::Error),
        ("(a))", Want::Error),
        ("((a)", Want::Error),
        (")a(", Want::Error),
        ("()", Want::Error),
        ("(", Want::Error),
        (")", Want::Error),
        ("(\u{e9})", Want::Error),
        ("(a + \u{e9})", Want::Error),
    ];
    let mut bad = Vec::new();
    for (text, want) in &cases {
        let t = text.to_string();
        let f = facts.clone();
        let got = match std::panic::catch_unwind(std::panic::AssertUnwindSafe(move || evaluate_expression(&t, &f))) {
            Ok(g) => g,
            Err(_) => {
                bad.push(format!("evaluate_expression({:?}) PANICKED", text));
                continue;
            }
        };
        let ok = match (want, &got) {
            (Want::Int(w), Ok(Value::Integer(i))) => i == w,
            (Want::Int(w), Ok(Value::Number(n))) => (*n - *w as f64).abs() < 1e-9,
            (Want::Num(w), Ok(Value::Number(n))) => (*n - *w).abs() < 1e-9,
            (Want::Num(w), Ok(Value::Integer(i))) => (*i as f64 - *w).abs() < 1e-9,
            (Want::Text(w), Ok(Value::String(s))) => s == w,
            (Want::Error, Err(_)) => true,
            _ => false,
        };
        if !ok {
            let w = match want {
                Want::Int(w) => format!("{}", w),
                Want::Num(w) => format!("{}", w),
                Want::Text(w) => format!("the text {:?}", w),
                Want::Error => "an error".to_string(),
            };
            bad.push(format!("evaluate_expression({:?}) = {:?}, expected {}", text, got.map_err(|e| e.to_string()), w));
        }
    }
    if bad.is_empty() {
        (false, format!("{} recorded texts with parentheses (a=10 b=5 c=2 d=8) evaluate as written", cases.len()))
    } else {
        (true, format!("a=10 b=5 c=2 d=8 x=7: {}", bad.join("; ")))
    }
}

pub fn witnesses() -> Vec<crate::W> {
    vec![
        ("c01_parenthesised_arithmetic_condition_is_misread", c01_parenthesised_arithmetic_condition_is_misread),
        ("c01_documented_parenthesised_assignment", c01_documented_parenthesised_assignment),
        ("c01_documented_parenthesised_operands_recorded", c01_documented_parenthesised_operands_recorded),
    ]
}
