//! C01: parenthesised arithmetic (documented in docs/core-features/GRL_SYNTAX.md and docs/getting-started/FIRST_RULES.md) through the
//! native engine.  Recorded histories found while putting src/expression.rs under a functional contract (unit expr_assoc).
use rust_rule_engine::engine::facts::Facts;
use rust_rule_engine::engine::knowledge_base::KnowledgeBase;
use rust_rule_engine::engine::{EngineConfig, RustRuleEngine};
use rust_rule_engine::Value;

fn run(grl: &str, set: &[(&str, Value)]) -> Result<(Facts, usize), String> {
    let kb = KnowledgeBase::new("c01c");
    match kb.add_rules_from_grl(grl) {
        Ok(1) => {}
        other => return Err(format!("did not parse into one rule: {:?}", other.map_err(|e| e.to_string()))),
    }
    let mut engine = RustRuleEngine::with_config(kb, EngineConfig { max_cycles: 1, timeout: None, enable_stats: false, debug_mode: false });
    let facts = Facts::new();
    for (k, v) in set {
        facts.set(k, v.clone());
    }
    match engine.execute(&facts) {
        Ok(r) => Ok((facts, r.rules_fired)),
        Err(e) => Err(format!("execute returned Err({})", e)),
    }
}

/// `when (a - b) * c == 10`: the condition regex of the GRL parser is not anchored, the rule is loaded as `c == 10`
fn c01_parenthesised_arithmetic_condition_is_misread() -> (bool, String) {
    let grl = "rule \"P\" { when (a - b) * c == 10 then o = 1; }";
    let mut bad = Vec::new();
    // (10 - 5) * 10 = 50: the condition is false, the rule must not fire
    match run(grl, &[("a", Value::Integer(10)), ("b", Value::Integer(5)), ("c", Value::Integer(10)), ("o", Value::Integer(0))]) {
        Ok((_, fired)) if fired > 0 => bad.push("a=10 b=5 c=10: (a - b) * c = 50, the rule FIRED".to_string()),
        Ok(_) => {}
        Err(e) => bad.push(format!("a=10 b=5 c=10: {}", e)),
    }
    // (10 - 5) * 2 = 10: the condition is true, the rule must fire
    match run(grl, &[("a", Value::Integer(10)), ("b", Value::Integer(5)), ("c", Value::Integer(2)), ("o", Value::Integer(0))]) {
        Ok((_, fired)) if fired == 0 => bad.push("a=10 b=5 c=2: (a - b) * c = 10, the rule did NOT fire".to_string()),
        Ok(_) => {}
        Err(e) => bad.push(format!("a=10 b=5 c=2: {}", e)),
    }
    if bad.is_empty() {
        (false, "`when (a - b) * c == 10` fires exactly when (a - b) * c is 10".into())
    } else {
        (true, format!("GRL `{}`: {}", grl, bad.join("; ")))
    }
}

/// the documented assignment `Order.total = Order.subtotal * (1 - Order.discount);`
fn c01_documented_parenthesised_assignment() -> (bool, String) {
    let grl = "rule \"D\" { when Order.subtotal > 0 then Order.total = Order.subtotal * (1 - Order.discount); }";
    match run(grl, &[("Order.subtotal", Value::Integer(200)), ("Order.discount", Value::Number(0.25)), ("Order.total", Value::Integer(0))]) {
        Ok((f, _)) => {
            let got = f.get_nested("Order.total").or_else(|| f.get("Order.total"));
            let ok = match &got {
                Some(Value::Number(n)) => (*n - 150.0).abs() < 1e-9,
                Some(Value::Integer(i)) => *i == 150,
                _ => false,
            };
            if ok { (false, "Order.total = 150".into()) } else { (true, format!("GRL `{}` with subtotal=200 discount=0.25: Order.total = {:?}, documented value 150", grl, got)) }
        }
        Err(e) => (true, format!("GRL `{}` (docs/core-features/GRL_SYNTAX.md) with subtotal=200 discount=0.25: {}; documented value 150", grl, e)),
    }
}

pub fn witnesses() -> Vec<crate::W> {
    vec![
        ("c01_parenthesised_arithmetic_condition_is_misread", c01_parenthesised_arithmetic_condition_is_misread),
        ("c01_documented_parenthesised_assignment", c01_documented_parenthesised_assignment),
    ]
}
