//! C01, "arithmetic +,-,*,/,% in conditions": the path of a condition whose LEFT side is an arithmetic expression — GRL parser
//! (Condition::with_test(text)) -> RustRuleEngine::evaluate_single_condition, Test arm -> evaluate_arithmetic_condition(text).
//! Recorded histories found while putting that path under contract (unit arith_condition).  Register in main.rs with `mod c01d;`,
//! `all.extend(c01d::witnesses());` and `all.extend(c01d::open_finding_witnesses());`.
//!
//!   c01_arith_condition_operator_in_literal     FIXED ("fix: an arithmetic condition is cut at its leftmost comparison operator ..").
//!                                  `when A.x + 1 != "a==b"` with A.x = 0: 1 != "a==b" is true, the rule must fire.  The old code searched
//!                                  the text for >=, <=, ==, !=, >, < in that order and cut at the LAST occurrence of the first one found:
//!                                  inside the literal.  The left side then failed to evaluate and the condition was silently false.
//!   c01_arith_condition_split_table             every text `L op R`, L from 5 arithmetic left sides (integer and string valued), op the six
//!                                  comparison operators, R from 14 right sides (integer / negative / float literals, field, expression,
//!                                  quoted literals containing operator and arithmetic characters), with and without blanks around the
//!                                  operator, through GRL + execute: fires iff the reference comparison (written here) is true.
//!   c01_arith_routing              which clauses the GRL parser turns into an arithmetic test: exactly those whose left side contains
//!                                  + - * / %; an arithmetic character inside a quoted literal on the right does not (`A.name == "a-b"`
//!                                  stays a field comparison and fires for A.name = "a-b").
//!   c01_arith_condition_with_word_operator_never_fires      OPEN.  `when A.x + 1 in [2, 3]` (A.x = 1), `A.x % 3 in [0]` (A.x = 9),
//!                                  `A.s + A.t contains "b"`, `.. startsWith ..`, `.. endsWith ..`: the parser accepts the clause (the condition
//!                                  regex lists these operators) and hands the whole text to evaluate_arithmetic_condition, which
//!                                  knows the six comparison operators only: Err("No comparison operator found") -> the leaf is false,
//!                                  silently, whatever the facts.
use rust_rule_engine::engine::facts::Facts;
use rust_rule_engine::engine::knowledge_base::KnowledgeBase;
use rust_rule_engine::engine::rule::{ConditionExpression, ConditionGroup};
use rust_rule_engine::engine::{EngineConfig, RustRuleEngine};
use rust_rule_engine::Value;

fn s(x: &str) -> Value {
    Value::String(x.to_string())
}

fn store() -> Vec<(&'static str, Value)> {
    vec![
        ("A.x", Value::Integer(3)),
        ("A.y", Value::Integer(2)),
        ("A.s", s("x>")),
        ("A.t", s("=y")),
        ("A.name", s("a-b")),
        ("A.star", s("a*b")),
    ]
}

/// loads `rule "P" { when <cond> then o = 1; }`, runs one cycle on the store; Ok(fired?, the parsed condition)
fn fires(cond: &str, set: &[(&str, Value)]) -> Result<(bool, ConditionGroup), String> {
    let grl = format!("rule \"P\" {{ when {} then o = 1; }}", cond);
    let kb = KnowledgeBase::new("c01d");
    match kb.add_rules_from_grl(&grl) {
        Ok(1) => {}
        other => return Err(format!("did not parse into one rule: {:?}", other.map_err(|e| e.to_string()))),
    }
    let parsed = kb.get_rules()[0].conditions.clone();
    let mut engine = RustRuleEngine::with_config(kb, EngineConfig { max_cycles: 1, timeout: None, enable_stats: false, debug_mode: false });
    let facts = Facts::new();
    for (k, v) in set {
        facts.set(k, v.clone());
    }
    match engine.execute(&facts) {
        Ok(r) => Ok((r.rules_fired > 0, parsed)),
        Err(e) => Err(format!("execute returned Err({})", e)),
    }
}

fn c01_arith_condition_operator_in_literal() -> (bool, String) {
    // (condition, must fire)
    let cases: [(&str, bool); 6] = [
        ("A.x + 1 != \"a==b\"", true),   // 4 != "a==b"
        ("A.x + 1 != \"a>=b\"", true),
        ("A.x * 2 != \"<=\"", true),
        ("A.s + A.t == \"x>=y\"", true), // "x>" + "=y" == "x>=y"
        ("A.s + A.t != \"x>=y\"", false),
        ("A.x + 1 == \"a>=b\"", false),
    ];
    let mut bad = Vec::new();
    for (c, expect) in cases {
        match fires(c, &store()) {
            Ok((f, _)) if f != expect => bad.push(format!("`{}`: {}", c, if expect { "did NOT fire" } else { "FIRED" })),
            Ok(_) => {}
            Err(e) => bad.push(format!("`{}`: {}", c, e)),
        }
    }
    if bad.is_empty() {
        (false, "6 arithmetic conditions whose right side is a literal containing a comparison operator fire as they must".into())
    } else {
        (true, format!("facts A.x=3 A.s=\"x>\" A.t=\"=y\": {}", bad.join("; ")))
    }
}

#[derive(Clone, Debug, PartialEq)]
enum V {
    I(i64),
    F(f64),
    S(String),
}
fn num(v: &V) -> Option<f64> {
    match v {
        V::I(i) => Some(*i as f64),
        V::F(f) => Some(*f),
        V::S(t) => t.parse::<f64>().ok(),
    }
}
/// the documented comparison: ordering is numeric and false unless both sides are numbers; equality is equality of kind and payload.
/// None: equal numbers of different kinds (Integer 4 vs Number 4.0) — the documentation is not definite there (see props/C01.json)
fn reference(l: &V, op: &str, r: &V) -> Option<bool> {
    let ord = |f: fn(f64, f64) -> bool| Some(match (num(l), num(r)) {
        (Some(a), Some(b)) => f(a, b),
        _ => false,
    });
    match op {
        ">" => ord(|a, b| a > b),
        ">=" => ord(|a, b| a >= b),
        "<" => ord(|a, b| a < b),
        "<=" => ord(|a, b| a <= b),
        _ => {
            let eq = match (l, r) {
                (V::I(a), V::I(b)) => a == b,
                (V::F(a), V::F(b)) => a == b,
                (V::S(a), V::S(b)) => a == b,
                (V::S(_), _) | (_, V::S(_)) => false,
                (a, b) => {
                    if num(a) == num(b) {
                        return None;
                    }
                    false
                }
            };
            Some(if op == "==" { eq } else { !eq })
        }
    }
}

fn c01_arith_condition_split_table() -> (bool, String) {
    let lefts: [(&str, V); 5] = [
        ("A.x + 1", V::I(4)),
        ("A.x * A.y", V::I(6)),
        ("A.x - 5", V::I(-2)),
        ("A.x % 2", V::I(1)),
        ("A.s + A.t", V::S("x>=y".into())),
    ];
    let rights: [(&str, V); 14] = [
        ("4", V::I(4)),
        ("-2", V::I(-2)),
        ("6", V::I(6)),
        ("1", V::I(1)),
        ("0", V::I(0)),
        ("4.5", V::F(4.5)),
        ("A.y", V::I(2)),
        ("A.y + 2", V::I(4)),
        ("A.y * 3", V::I(6)),
        ("\"x>=y\"", V::S("x>=y".into())),
        ("\"a==b\"", V::S("a==b".into())),
        ("\"<none>\"", V::S("<none>".into())),
        ("\"a!=b\"", V::S("a!=b".into())),
        ("\"=\"", V::S("=".into())),
    ];
    let mut tried = 0u64;
    let mut skipped = 0u64;
    let mut bad: Vec<String> = Vec::new();
    for (lt, lv) in &lefts {
        for op in [">=", "<=", "==", "!=", ">", "<"] {
            for (rtx, rv) in &rights {
                let expect = match reference(lv, op, rv) {
                    Some(b) => b,
                    None => {
                        skipped += 1;
                        continue;
                    }
                };
                for blanks in [" ", ""] {
                    // (`>` directly followed by a negative literal etc. is fine; `>`/`<` directly followed by `=` would read `>=`)
                    let text = format!("{}{}{}{}{}", lt, blanks, op, blanks, rtx);
                    tried += 1;
                    match fires(&text, &store()) {
                        Ok((f, _)) if f != expect => bad.push(format!("`{}`: {}", text, if expect { "did NOT fire" } else { "FIRED" })),
                        Ok(_) => {}
                        Err(e) => bad.push(format!("`{}`: {}", text, e)),
                    }
                }
            }
        }
    }
    if bad.is_empty() {
        (false, format!("{} conditions `L op R` (5 left sides x 6 operators x 14 right sides x blanks; {} undetermined skipped) fire iff the reference comparison is true", tried, skipped))
    } else {
        let n = bad.len();
        bad.truncate(6);
        (true, format!("facts A.x=3 A.y=2 A.s=\"x>\" A.t=\"=y\": {} of {} wrong, e.g. {}", n, tried, bad.join("; ")))
    }
}

fn leaf_kind(g: &ConditionGroup) -> &'static str {
    match g {
        ConditionGroup::Single(c) => match &c.expression {
            ConditionExpression::Field(_) => "field",
            ConditionExpression::Test { .. } => "test",
            _ => "other",
        },
        _ => "tree",
    }
}

fn c01_arith_routing() -> (bool, String) {
    // (condition, expected leaf kind, must fire)
    let cases: [(&str, &str, bool); 12] = [
        ("A.name == \"a-b\"", "field", true),
        ("A.star == \"a*b\"", "field", true),
        ("A.name != \"a+b\"", "field", true),
        ("A.name == \"a/b\"", "field", false),
        ("A.name == \"10%\"", "field", false),
        ("A.y > A.x - 2", "field", true), // arithmetic on the RIGHT of a field comparison: Field arm, Value::Expression
        ("A.x + 1 == 4", "test", true),
        ("A.x - 1 == 2", "test", true),
        ("A.x-1 == 2", "test", true),
        ("A.x * 2 > 5", "test", true),
        ("A.x / 3 >= 1", "test", true),
        ("A.x % 3 == 0", "test", true),
    ];
    let mut bad = Vec::new();
    for (c, kind, expect) in cases {
        match fires(c, &store()) {
            Ok((f, parsed)) => {
                if leaf_kind(&parsed) != kind {
                    bad.push(format!("`{}` parsed as a {} leaf, expected {}", c, leaf_kind(&parsed), kind));
                }
                if f != expect {
                    bad.push(format!("`{}`: {}", c, if expect { "did NOT fire" } else { "FIRED" }));
                }
            }
            Err(e) => bad.push(format!("`{}`: {}", c, e)),
        }
    }
    if bad.is_empty() {
        (false, "12 clauses: arithmetic test leaf exactly when the left side contains + - * / %, and each fires as it must".into())
    } else {
        (true, bad.join("; "))
    }
}

fn c01_arith_condition_with_word_operator_never_fires() -> (bool, String) {
    let cases: [&str; 6] = [
        "A.x + 1 in [4, 5]",        // 4 in [4, 5]
        "A.x % 3 in [0]",           // 0 in [0]
        "A.s + A.t contains \">=\"", // "x>=y" contains ">="
        "A.s + A.t contains \"y\"",
        "A.s + A.t startsWith \"x\"",
        "A.s + A.t endsWith \"y\"",
    ];
    let mut bad = Vec::new();
    for c in cases {
        match fires(c, &store()) {
            Ok((true, _)) => {}
            Ok((false, _)) => bad.push(format!("`{}` did NOT fire", c)),
            Err(e) => bad.push(format!("`{}`: {}", c, e)),
        }
    }
    if bad.is_empty() {
        (false, "6 true arithmetic conditions with in / contains / startsWith / endsWith fire".into())
    } else {
        (true, format!("facts A.x=3 A.s=\"x>\" A.t=\"=y\" (every condition is true): {}", bad.join("; ")))
    }
}

pub fn witnesses() -> Vec<crate::W> {
    vec![
        ("c01_arith_condition_operator_in_literal", c01_arith_condition_operator_in_literal),
        ("c01_arith_condition_split_table", c01_arith_condition_split_table),
        ("c01_arith_routing", c01_arith_routing),
    ]
}

/// open finding (code left alone): see the head of this file
pub fn open_finding_witnesses() -> Vec<crate::W> {
    vec![("c01_arith_condition_with_word_operator_never_fires", c01_arith_condition_with_word_operator_never_fires)]
}
