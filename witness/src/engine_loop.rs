//! C03 witnesses for the hypothesis of unit engine_loop's fixpoint clause (`reads_only`: evaluating a condition does not write the
//! facts).  Wire into main.rs with `mod engine_loop;` + `all.extend(engine_loop::witnesses());`
//!
//! Reference (from the statement): "When it stops before the bound the final facts are a fixpoint: no rule that is still eligible
//! has a true condition on them."  Every rule below is enabled, in the focused group (MAIN), without dates, lock-on-active, activation
//! group or no-loop, so every rule is still eligible when the call returns; conditions are re-evaluated by the reference on the facts
//! the call leaves behind (a field comparison reads the flat key; `accumulate(..)` is true; `&&`, `!` as usual).
//!
//! The accumulate group of the forward engine (engine.rs evaluate_accumulate) stores its result with
//! `facts.set("<pattern>.<function>", ..)` WHILE the condition is being evaluated.  When the rule that carries it does not fire (its
//! other conjunct is false, or the group is negated) and a rule that reads the stored key was visited earlier in the same pass, the pass
//! fires nothing, the call returns before the bound, and the reading rule has a true condition on the final facts.
use rust_rule_engine::{ActionType, Condition, ConditionGroup, EngineConfig, Facts, KnowledgeBase, Operator, Rule, RustRuleEngine, Value};

#[derive(Clone, Copy, Debug, PartialEq)]
enum Carrier {
    AccAndFalse, // accumulate(Order.amount, sum) && never == true       never fires, evaluates the accumulate (no short circuit)
    NotAcc,      // !accumulate(Order.amount, sum)                       never fires
    FalseAndAcc, // never == true && accumulate(Order.amount, sum)       never fires; both sides are evaluated
}
#[derive(Clone, Copy, Debug, PartialEq)]
enum Path {
    Plain,
    AtTime,
    Callback,
}

fn acc() -> ConditionGroup {
    ConditionGroup::accumulate("$total".into(), "Order".into(), "amount".into(), vec![], "sum".into(), "$amount".into())
}
fn never() -> ConditionGroup {
    ConditionGroup::single(Condition::new("never".into(), Operator::Equal, Value::Boolean(true)))
}
fn carrier(c: Carrier) -> ConditionGroup {
    match c {
        Carrier::AccAndFalse => ConditionGroup::and(acc(), never()),
        Carrier::NotAcc => ConditionGroup::not(acc()),
        Carrier::FalseAndAcc => ConditionGroup::and(never(), acc()),
    }
}
fn number(v: Option<Value>) -> Option<f64> {
    match v {
        Some(Value::Number(x)) => Some(x),
        Some(Value::Integer(x)) => Some(x as f64),
        _ => None,
    }
}

/// one run; Some(description) when the call stopped before the bound although the reader rule has a true condition on the final facts
fn run(c: Carrier, reader_salience: i32, carrier_salience: i32, path: Path, max_cycles: usize) -> Option<String> {
    let kb = KnowledgeBase::new("c03acc");
    // reader: when Order.sum > 100 then seen = true
    let reader = Rule::new(
        "reader".into(),
        ConditionGroup::single(Condition::new("Order.sum".into(), Operator::GreaterThan, Value::Integer(100))),
        vec![ActionType::Set { field: "seen".into(), value: Value::Boolean(true) }],
    )
    .with_salience(reader_salience);
    let carry = Rule::new("carrier".into(), carrier(c), vec![]).with_salience(carrier_salience);
    kb.add_rule(reader).unwrap();
    kb.add_rule(carry).unwrap();
    let mut engine = RustRuleEngine::with_config(kb, EngineConfig { max_cycles, timeout: None, enable_stats: false, debug_mode: false });
    let facts = Facts::new();
    facts.set("Order.1.amount", Value::Integer(80));
    facts.set("Order.2.amount", Value::Integer(70));
    facts.set("never", Value::Boolean(false));
    facts.set("seen", Value::Boolean(false));
    let res = match path {
        Path::Plain => engine.execute(&facts),
        Path::AtTime => {
            let when = Rule::new("t".into(), never(), vec![]).with_date_effective_str("2030-06-01T00:00:00Z").unwrap().date_effective.unwrap();
            engine.execute_at_time(&facts, when)
        }
        Path::Callback => engine.execute_with_callback(&facts, |_, _| {}),
    };
    let res = match res {
        Ok(r) => r,
        Err(_) => return None, // the fixpoint sentence is about calls that return a result
    };
    if res.cycle_count >= max_cycles {
        return None; // at the bound: nothing is claimed
    }
    // reference: the reader's condition on the final facts (every rule is still eligible: no gate is in use)
    let sum = number(facts.get("Order.sum"));
    let reader_true = matches!(sum, Some(s) if s > 100.0);
    // the carrier's condition is false on every state (never == false is never changed)
    if reader_true {
        return Some(format!(
            "rules (insertion order) reader[salience {}: when Order.sum > 100 then seen = true] carrier[salience {}: when {:?} then <no actions>]; \
             facts Order.1.amount=80 Order.2.amount=70 never=false seen=false; max_cycles {}, timeout none, {:?}: returned Ok with cycle_count = {} < max_cycles, \
             rules_fired = {}, final facts Order.sum = {:?}, seen = {:?}: the enabled, in-focus, not-no-loop rule `reader` has a true condition on the final facts \
             (the accumulate group stored Order.sum while `carrier` was evaluated, after `reader` had been visited, in a pass that fired nothing)",
            reader_salience, carrier_salience, c, max_cycles, path, res.cycle_count, res.rules_fired, facts.get("Order.sum"), facts.get("seen")
        ));
    }
    None
}

fn c03_accumulate_in_a_rule_that_does_not_fire() -> (bool, String) {
    let mut tried = 0;
    for c in [Carrier::AccAndFalse, Carrier::NotAcc, Carrier::FalseAndAcc] {
        for (rs, cs) in [(10, 0), (0, 10), (0, 0)] {
            for path in [Path::Plain, Path::AtTime, Path::Callback] {
                for max_cycles in [2usize, 10] {
                    tried += 1;
                    if let Some(d) = run(c, rs, cs, path, max_cycles) {
                        return (true, d);
                    }
                }
            }
        }
    }
    (false, format!("{} runs: a reader of Order.sum next to a never-firing rule that carries accumulate(Order.amount, sum) (3 shapes x 3 salience orders x execute / execute_at_time / execute_with_callback x max_cycles 2, 10): every early stop was a fixpoint", tried))
}

pub fn witnesses() -> Vec<crate::W> {
    vec![("c03_accumulate_in_a_rule_that_does_not_fire", c03_accumulate_in_a_rule_that_does_not_fire)]
}
