//! C05 (fourth part) — the link the Verus unit query_slices cannot prove: `QueryAction::execute` slices every element of its pub field
//! `calls` as `&call[open_paren + 1..close_paren]` (first `(` / last `)` of the trimmed text) WITHOUT testing open_paren < close_paren;
//! the unit proves it safe under the precondition "the first `(` stands before the last `)`" (`")("` panics, but only a hand-built
//! QueryAction can hold it).  Whether every call text that `GRLQueryParser::parse` / `parse_queries` produce FROM A QUERY TEXT satisfies
//! that precondition is decided by a regular expression of crate rexile (`([A-Za-z_][A-Za-z0-9_]*\([^)]*\));`), outside every contract.
//! Reference (from the property statement: parsing returns a value or an error for every text, and what it returns must not make the
//! query's own action step panic): for every text, parse / parse_queries return without panicking AND every call text of every action
//! of every returned query has a `(` and a `)` with the first `(` before the last `)`.  A panic, or a call text violating this, is a
//! violation.  The actions are NOT executed (they print); the condition checked is exactly the slice's safety condition.
//!
//! * recorded: action blocks with brackets in odd places, multi-byte characters, quotes.
//! * bounded search: every action-block body of at most 3 (thorough tier: 4) tokens over a 12-token alphabet (`f(` and `);` are single tokens, so three
//!   tokens reach `f(` X `);` and `)(` `f(` `);`; one text costs ~1.3 ms: every extractor compiles its regular expression per call), in on-success /
//!   on-failure / on-missing position of a well-formed query, through parse and parse_queries.
//!
//! Second half — the goal-pattern reader of the backward search (src/backward/search.rs parse_goal_pattern / parse_value_string, two
//! copies: depth-first and breadth-first / iterative).  `BackwardEngine::query(text)` parses the text (QueryParser -> ExpressionParser)
//! and then hands the WHOLE text to the search, which re-reads it with find(operator) and strips quotes with `s[1..s.len() - 1]`
//! behind starts_with(q) && ends_with(q) — true of the one-character text `"`.  Before the fix commit `A != "=="` (a valid query: the
//! field A differs from the string `==`) panicked: the reader finds `==` inside the literal and is left with the value text `"`.
//! Reference (statement): for every text the query returns a value or an error.
//! * recorded: the panicking texts and neighbours, under the three search strategies.
//! * bounded search: every text of at most 5 (thorough: 6) tokens over a 10-token alphabet, three strategies.
use rust_rule_engine::backward::grl_query::{GRLQuery, GRLQueryParser, QueryAction};
use rust_rule_engine::backward::{BackwardConfig, BackwardEngine, SearchStrategy};
use rust_rule_engine::{Facts, KnowledgeBase, Value};

const TOKENS: [&str; 12] = ["f(", ");", "(", ")", ";", " ", "é", "\"", "x=", ")(", "\n", "_"];

fn quiet<T>(f: impl FnOnce() -> T + std::panic::UnwindSafe) -> Result<T, ()> {
    std::panic::catch_unwind(f).map_err(|_| ())
}

fn with_silent_panics<T>(f: impl FnOnce() -> T) -> T {
    let prev = std::panic::take_hook();
    std::panic::set_hook(Box::new(|_| {}));
    let r = f();
    std::panic::set_hook(prev);
    r
}

/// the safety condition of `&call[open_paren + 1..close_paren]` in QueryAction::execute_function_call
fn call_is_sliceable(call: &str) -> bool {
    let c = call.trim();
    match (c.find('('), c.rfind(')')) {
        (Some(o), Some(cl)) => o < cl,
        // a missing bracket makes execute return Err(..) — a value, not a panic
        _ => true,
    }
}

fn bad_call_in(a: &Option<QueryAction>) -> Option<String> {
    a.as_ref().and_then(|a| a.calls.iter().find(|c| !call_is_sliceable(c)).cloned())
}

fn bad_call(q: &GRLQuery) -> Option<String> {
    bad_call_in(&q.on_success).or_else(|| bad_call_in(&q.on_failure)).or_else(|| bad_call_in(&q.on_missing))
}

/// None = fine; Some(description) = violation
fn check_text(text: &str) -> Option<String> {
    let t = text.to_string();
    match quiet(move || GRLQueryParser::parse(&t)) {
        Err(()) => return Some(format!("GRLQueryParser::parse({:?}) panicked", text)),
        Ok(Ok(q)) => {
            if let Some(c) = bad_call(&q) {
                return Some(format!("GRLQueryParser::parse({:?}) produced the call text {:?} (first `(` not before last `)`): QueryAction::execute would panic", text, c));
            }
        }
        Ok(Err(_)) => {}
    }
    let t = text.to_string();
    match quiet(move || GRLQueryParser::parse_queries(&t)) {
        Err(()) => return Some(format!("GRLQueryParser::parse_queries({:?}) panicked", text)),
        Ok(Ok(qs)) => {
            for q in &qs {
                if let Some(c) = bad_call(q) {
                    return Some(format!("GRLQueryParser::parse_queries({:?}) produced the call text {:?} (first `(` not before last `)`)", text, c));
                }
            }
        }
        Ok(Err(_)) => {}
    }
    None
}

fn wrap(slot: usize, body: &str) -> String {
    let name = ["on-success", "on-failure", "on-missing"][slot % 3];
    format!("query \"Q\" {{\n goal: a == 1\n {}: {{ {} }}\n}}", name, body)
}

fn c05_query_action_calls_recorded() -> (bool, String) {
    with_silent_panics(|| {
        let bodies = [
            "f();", ")(;", "f)(;", "f();)(;", "x = )(; f();", "f(\")(\");", "f(é);", "é(); f();", "f ();", "f(();", "f());", "_();",
            "f(a)(b);", "f(\n);", "F1(x = 1;);", "f(;);", "a = f(); g();", ") f( ;", "f(); }", "f(\"}\");",
        ];
        let mut n = 0;
        for b in bodies {
            for slot in 0..3 {
                n += 1;
                if let Some(v) = check_text(&wrap(slot, b)) {
                    return (true, v);
                }
            }
        }
        // the precondition itself: the hand-built text is NOT sliceable (sanity of the reference), a parsed one is
        if call_is_sliceable(")(") || !call_is_sliceable("f()") {
            return (true, "reference error: call_is_sliceable".to_string());
        }
        (false, format!("{} recorded action blocks: parse / parse_queries returned and every call text has its first `(` before its last `)`", n))
    })
}

fn c05_query_action_calls_search() -> (bool, String) {
    with_silent_panics(|| {
        let max_len = if std::env::var("VERIF_TIER").map(|t| t == "thorough").unwrap_or(false) { 4 } else { 3 };
        let n = TOKENS.len() as u64;
        let mut tried = 0u64;
        for len in 1..=max_len {
            for c in 0..n.pow(len as u32) {
                let mut s = String::new();
                let mut d = c;
                for _ in 0..len {
                    s.push_str(TOKENS[(d % n) as usize]);
                    d /= n;
                }
                tried += 1;
                if let Some(v) = check_text(&wrap((c % 3) as usize, &s)) {
                    return (true, v);
                }
            }
        }
        (false, format!("{} action-block bodies of <= {} tokens over {:?}: no panic, every produced call text sliceable", tried, max_len, TOKENS))
    })
}

fn strategies() -> [SearchStrategy; 3] {
    [SearchStrategy::DepthFirst, SearchStrategy::BreadthFirst, SearchStrategy::Iterative]
}

/// None = returned; Some(description) = panicked
fn query_panics(text: &str) -> Option<String> {
    for strategy in strategies() {
        let t = text.to_string();
        let st = strategy.clone();
        let r = quiet(move || {
            let config = BackwardConfig { strategy: st, enable_memoization: false, ..BackwardConfig::default() };
            let mut engine = BackwardEngine::with_config(KnowledgeBase::new("kb"), config);
            let mut facts = Facts::new();
            facts.set("A", Value::String("x".to_string()));
            let _ = engine.query(&t, &mut facts);
        });
        if r.is_err() {
            return Some(format!("BackwardEngine::query({:?}) panicked (strategy {:?}; facts A = \"x\", empty knowledge base); expected Ok(..) or Err(..)", text, strategy));
        }
    }
    None
}

fn c05_backward_query_goal_pattern_recorded() -> (bool, String) {
    with_silent_panics(|| {
        let texts = [
            "A != \"==\"", "A != \" == \"", "A == \">=\"", "A != \"<=\"", "A == \"!=\"", "A == \"a\" && A != \"==\"", "A == \"\"",
            "A == \"é\"", "A == \"==é\"", "A != \"é==\"", "A == \" contains \"", "NOT A == \"==\"", "A == 'x'", "A == \"'\"",
        ];
        for t in texts {
            if let Some(v) = query_panics(t) {
                return (true, v);
            }
        }
        (false, format!("{} recorded query texts x 3 strategies returned", texts.len()))
    })
}

const QTOKENS: [&str; 10] = ["A", " ", "==", "!=", "\"", "'", ">=", "é", " contains ", "&&"];

fn c05_backward_query_goal_pattern_search() -> (bool, String) {
    with_silent_panics(|| {
        let max_len = if std::env::var("VERIF_TIER").map(|t| t == "thorough").unwrap_or(false) { 6 } else { 5 };
        let n = QTOKENS.len() as u64;
        let mut tried = 0u64;
        for len in 1..=max_len {
            for c in 0..n.pow(len as u32) {
                let mut s = String::new();
                let mut d = c;
                for _ in 0..len {
                    s.push_str(QTOKENS[(d % n) as usize]);
                    d /= n;
                }
                tried += 1;
                if let Some(v) = query_panics(&s) {
                    return (true, v);
                }
            }
        }
        (false, format!("{} query texts of <= {} tokens over {:?} x 3 strategies: no panic", tried, max_len, QTOKENS))
    })
}

pub fn witnesses() -> Vec<crate::W> {
    vec![
        ("c05_backward_query_goal_pattern_recorded", c05_backward_query_goal_pattern_recorded),
        ("c05_backward_query_goal_pattern_search", c05_backward_query_goal_pattern_search),
        ("c05_query_action_calls_recorded", c05_query_action_calls_recorded),
        ("c05_query_action_calls_search", c05_query_action_calls_search),
    ]
}
