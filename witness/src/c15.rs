//! C15 — "After any sequence of adding, removing, enabling, disabling and clearing rules [..] looking a rule up by name returns the
//! rule most recently added under that name or nothing if it was removed, and a duplicate name is rejected without effect.  Listing
//! returns every stored rule once, in descending salience with insertion order among equals, and the version number grows with
//! every successful change."  (src/engine/knowledge_base.rs)
//! Register in main.rs with `mod c15;` and `all.extend(c15::witnesses());`.
//!
//! Reference = the obvious sequential model: a list of (name, salience, enabled, stamp) kept in descending salience, a new rule going
//! behind its equals; `stamp` is a description unique to each add_rule call, so "the rule most recently added under that name" can be
//! told from an older one.  After the LAST operation of every history (shorter histories first, so every prefix has been checked
//! before) everything observable is compared: the operation's return value, get_rule for every name, get_rules, get_rule_names,
//! get_rules_by_salience + get_rule_by_index, rule_count, get_rules_snapshot, and version (+1 for add of a new name / remove of a
//! stored one / set_rule_enabled of a stored one that flips the flag / clear of a non-empty base; +0 for a rejected duplicate and
//! for remove / set_rule_enabled of an unknown name; either for the two no-ops that the code counts as changes).
//!
//!   c15_kb_search_4ops      every history of <= 4 operations over 4 names x 3 saliences {-5, 0, 10}: add_rule, remove_rule,
//!                           set_rule_enabled(true), set_rule_enabled(false), clear (25 operations)
//!   c15_kb_search_5ops      every history of <= 5 operations, the same but set_rule_enabled always flips the flag (21 operations)
//!   c15_kb_search_6ops      every history of <= 6 add_rule / remove_rule over 4 names x 2 saliences
//!   c15_concurrent_lookup   2 threads, fixed iteration counts: a writer reshuffles positions (add / remove of a higher-salience
//!                           rule), a reader looks names up; a lookup must never return a rule stored under another name
//! Histories are enumerated up to renaming (names are introduced in the order A, B, C, D).
use rust_rule_engine::{ActionType, Condition, ConditionGroup, KnowledgeBase, Operator, Rule, Value};
use std::sync::atomic::{AtomicBool, AtomicU64, Ordering};
use std::sync::{mpsc, Arc, Mutex};
use std::time::Duration;

const NAMES: [&str; 4] = ["A", "B", "C", "D"];

#[derive(Clone, Copy, Debug, PartialEq)]
enum Op {
    Add(usize, i32),
    Remove(usize),
    /// set_rule_enabled(name, flag)
    Enable(usize, bool),
    /// set_rule_enabled(name, !current) (false when the name is unknown)
    Toggle(usize),
    Clear,
}

impl Op {
    fn name(&self) -> Option<usize> {
        match *self {
            Op::Add(n, _) | Op::Remove(n) | Op::Enable(n, _) | Op::Toggle(n) => Some(n),
            Op::Clear => None,
        }
    }
}

#[derive(Clone, Debug, PartialEq)]
struct MRule {
    name: usize,
    salience: i32,
    enabled: bool,
    stamp: String,
}

#[derive(Clone, Debug, Default)]
struct Model {
    rules: Vec<MRule>,
}

/// what the last operation must have returned / done to the version
#[derive(Debug, PartialEq)]
enum Ret {
    AddOk,
    AddRejected,
    Bool(bool),
    Unit,
}

fn template() -> Rule {
    Rule::new(
        "t".to_string(),
        ConditionGroup::single(Condition::new("x".to_string(), Operator::Equal, Value::Boolean(true))),
        vec![ActionType::Set { field: "y".to_string(), value: Value::Boolean(true) }],
    )
}

impl Model {
    /// returns (expected return value, allowed version increments)
    fn apply(&mut self, op: Op, stamp: &str) -> (Ret, &'static [u64]) {
        match op {
            Op::Add(n, s) => {
                if self.rules.iter().any(|r| r.name == n) {
                    return (Ret::AddRejected, &[0]);
                }
                let pos = self.rules.iter().position(|r| r.salience < s).unwrap_or(self.rules.len());
                self.rules.insert(pos, MRule { name: n, salience: s, enabled: true, stamp: stamp.to_string() });
                (Ret::AddOk, &[1])
            }
            Op::Remove(n) => match self.rules.iter().position(|r| r.name == n) {
                Some(p) => {
                    self.rules.remove(p);
                    (Ret::Bool(true), &[1])
                }
                None => (Ret::Bool(false), &[0]),
            },
            Op::Enable(n, flag) => match self.rules.iter_mut().find(|r| r.name == n) {
                Some(r) => {
                    let flips = r.enabled != flag;
                    r.enabled = flag;
                    (Ret::Bool(true), if flips { &[1] } else { &[0, 1] })
                }
                None => (Ret::Bool(false), &[0]),
            },
            Op::Toggle(_) => unreachable!(),
            Op::Clear => {
                let was_empty = self.rules.is_empty();
                self.rules.clear();
                (Ret::Unit, if was_empty { &[0, 1] } else { &[1] })
            }
        }
    }

    fn resolve(&self, op: Op) -> Op {
        match op {
            Op::Toggle(n) => Op::Enable(n, self.rules.iter().find(|r| r.name == n).map_or(false, |r| !r.enabled)),
            o => o,
        }
    }
}

fn do_op(kb: &KnowledgeBase, tmpl: &Rule, op: Op, stamp: &str) -> Ret {
    match op {
        Op::Add(n, s) => {
            let mut r = tmpl.clone();
            r.name = NAMES[n].to_string();
            r.salience = s;
            r.description = Some(stamp.to_string());
            match kb.add_rule(r) {
                Ok(()) => Ret::AddOk,
                Err(_) => Ret::AddRejected,
            }
        }
        Op::Remove(n) => kb.remove_rule(NAMES[n]).map(Ret::Bool).unwrap_or(Ret::Unit),
        Op::Enable(n, f) => kb.set_rule_enabled(NAMES[n], f).map(Ret::Bool).unwrap_or(Ret::Unit),
        Op::Toggle(_) => unreachable!(),
        Op::Clear => {
            kb.clear();
            Ret::Unit
        }
    }
}

fn show_rule(r: &Rule) -> String {
    format!("{}(sal {}, {}, {})", r.name, r.salience, if r.enabled { "on" } else { "off" }, r.description.clone().unwrap_or_default())
}
fn show_m(r: &MRule) -> String {
    format!("{}(sal {}, {}, {})", NAMES[r.name], r.salience, if r.enabled { "on" } else { "off" }, r.stamp)
}

fn show_op(op: Op) -> String {
    match op {
        Op::Add(n, s) => format!("add_rule({}, salience {})", NAMES[n], s),
        Op::Remove(n) => format!("remove_rule({})", NAMES[n]),
        Op::Enable(n, f) => format!("set_rule_enabled({}, {})", NAMES[n], f),
        Op::Toggle(n) => format!("toggle({})", NAMES[n]),
        Op::Clear => "clear()".to_string(),
    }
}

/// replays `hist` on a fresh knowledge base and compares everything observable after the last operation
fn check(tmpl: &Rule, hist: &[Op]) -> Option<String> {
    let kb = KnowledgeBase::new("c15");
    let mut m = Model::default();
    let mut resolved: Vec<Op> = Vec::with_capacity(hist.len());
    let n = hist.len();
    let mut last = (Ret::Unit, Ret::Unit, &[0u64][..], 0u64);
    for (i, &op) in hist.iter().enumerate() {
        let op = m.resolve(op);
        resolved.push(op);
        let stamp = format!("#{}", i + 1);
        let v0 = if i + 1 == n { kb.version() } else { 0 };
        let got = do_op(&kb, tmpl, op, &stamp);
        let (want, incs) = m.apply(op, &stamp);
        if i + 1 == n {
            last = (got, want, incs, v0);
        }
    }
    let head = || resolved.iter().enumerate().map(|(i, o)| format!("#{} {}", i + 1, show_op(*o))).collect::<Vec<_>>().join("; ");
    let (got, want, incs, v0) = last;
    if got != want {
        return Some(format!("{}: the last call returned {:?}, expected {:?}", head(), got, want));
    }
    let v1 = kb.version();
    if !incs.iter().any(|d| v0 + d == v1) {
        return Some(format!("{}: version went from {} to {} over the last call, expected +{:?}", head(), v0, v1, incs));
    }
    // lookups
    for (ni, name) in NAMES.iter().enumerate() {
        let got = kb.get_rule(name).map(|r| show_rule(&r));
        let want = m.rules.iter().find(|r| r.name == ni).map(show_m);
        if got != want {
            return Some(format!("{}: get_rule({}) = {:?}, expected {:?}", head(), name, got, want));
        }
    }
    // listings
    let want_list: Vec<String> = m.rules.iter().map(show_m).collect();
    let got_list: Vec<String> = kb.get_rules().iter().map(show_rule).collect();
    if got_list != want_list {
        return Some(format!("{}: get_rules() = {:?}, expected {:?}", head(), got_list, want_list));
    }
    let snap: Vec<String> = kb.get_rules_snapshot().iter().map(show_rule).collect();
    if snap != want_list {
        return Some(format!("{}: get_rules_snapshot() = {:?}, expected {:?}", head(), snap, want_list));
    }
    let order = kb.get_rules_by_salience();
    let by_index: Vec<String> = order.iter().map(|&i| kb.get_rule_by_index(i).map(|r| show_rule(&r)).unwrap_or_else(|| format!("<no rule at {}>", i))).collect();
    if by_index != want_list {
        return Some(format!("{}: get_rules_by_salience() = {:?} read through get_rule_by_index = {:?}, expected {:?}", head(), order, by_index, want_list));
    }
    if kb.get_rule_by_index(m.rules.len()).is_some() || kb.rule_count() != m.rules.len() {
        return Some(format!("{}: rule_count() = {}, get_rule_by_index({}) is_some = {}, expected {} rules", head(), kb.rule_count(), m.rules.len(), kb.get_rule_by_index(m.rules.len()).is_some(), m.rules.len()));
    }
    let mut names = kb.get_rule_names();
    names.sort();
    let mut want_names: Vec<String> = m.rules.iter().map(|r| NAMES[r.name].to_string()).collect();
    want_names.sort();
    if names != want_names {
        return Some(format!("{}: get_rule_names() = {:?}, expected {:?}", head(), names, want_names));
    }
    None
}

/// every history of exactly `len` operations over `alphabet` in which names are first mentioned in the order A, B, C, ..
fn histories(alphabet: &[Op], len: usize, prefix: &mut Vec<Op>, used: usize, f: &mut dyn FnMut(&[Op]) -> bool) -> bool {
    if prefix.len() == len {
        return f(prefix);
    }
    for &op in alphabet {
        let u = match op.name() {
            Some(n) if n > used => continue,
            Some(n) if n == used => used + 1,
            _ => used,
        };
        prefix.push(op);
        let stop = histories(alphabet, len, prefix, u, f);
        prefix.pop();
        if stop {
            return true;
        }
    }
    false
}

/// runs `work` on a thread; `work` bumps the counter before every replay.  If the counter stands still for 20 s (a lock taken twice,
/// a loop that does not end) the history it is stuck on is reported.
fn watched(work: impl FnOnce(&AtomicU64, &Mutex<String>) -> (bool, String) + Send + 'static) -> (bool, String) {
    let ticks = Arc::new(AtomicU64::new(0));
    let cur = Arc::new(Mutex::new(String::new()));
    let (tx, rx) = mpsc::channel();
    let (t2, c2) = (ticks.clone(), cur.clone());
    std::thread::spawn(move || {
        let r = std::panic::catch_unwind(std::panic::AssertUnwindSafe(|| work(&t2, &c2)));
        let _ = tx.send(r.unwrap_or_else(|_| (true, format!("panicked on {}", c2.lock().map(|s| s.clone()).unwrap_or_default()))));
    });
    let (mut last, mut idle) = (0u64, 0u32);
    loop {
        match rx.recv_timeout(Duration::from_millis(250)) {
            Ok(r) => return r,
            Err(mpsc::RecvTimeoutError::Disconnected) => return (true, "search thread died".to_string()),
            Err(mpsc::RecvTimeoutError::Timeout) => {
                let now = ticks.load(Ordering::SeqCst);
                if now == last {
                    idle += 1;
                    if idle >= 80 {
                        return (true, format!("did not return within 20 s: {}", cur.lock().map(|s| s.clone()).unwrap_or_default()));
                    }
                } else {
                    last = now;
                    idle = 0;
                }
            }
        }
    }
}

fn search(alphabet: Vec<Op>, max_len: usize, what: String) -> (bool, String) {
    watched(move |ticks, cur| {
        let tmpl = template();
        let mut tried = 0u64;
        let mut found: Option<String> = None;
        for len in 1..=max_len {
            histories(&alphabet, len, &mut Vec::new(), 0, &mut |h| {
                tried += 1;
                ticks.fetch_add(1, Ordering::Relaxed);
                if tried % 64 == 0 {
                    if let Ok(mut c) = cur.try_lock() {
                        *c = h.iter().map(|o| show_op(*o)).collect::<Vec<_>>().join("; ");
                    }
                }
                found = check(&tmpl, h);
                found.is_some()
            });
            if found.is_some() {
                break;
            }
        }
        match found {
            Some(d) => (true, d),
            None => (false, format!("{} histories ({}): return value, lookups, listings, count and version as in the sequential model after every one", tried, what)),
        }
    })
}

fn c15_kb_search_4ops() -> (bool, String) {
    let mut a = Vec::new();
    for n in 0..4 {
        for s in [-5, 0, 10] {
            a.push(Op::Add(n, s));
        }
        a.push(Op::Remove(n));
        a.push(Op::Enable(n, true));
        a.push(Op::Enable(n, false));
    }
    a.push(Op::Clear);
    let max_len = crate::bound(4, 5); // (the name says 4: the quick tier's bound)
    search(a, max_len, format!("<= {} operations out of add_rule / remove_rule / set_rule_enabled true,false / clear over 4 names x saliences {{-5,0,10}}, up to renaming", max_len))
}

fn c15_kb_search_5ops() -> (bool, String) {
    let mut a = Vec::new();
    for n in 0..4 {
        for s in [-5, 0, 10] {
            a.push(Op::Add(n, s));
        }
        a.push(Op::Remove(n));
        a.push(Op::Toggle(n));
    }
    a.push(Op::Clear);
    let max_len = crate::bound(5, 6); // (the name says 5: the quick tier's bound)
    search(a, max_len, format!("<= {} operations out of add_rule / remove_rule / set_rule_enabled (flipping the flag) / clear over 4 names x saliences {{-5,0,10}}, up to renaming", max_len))
}

fn c15_kb_search_6ops() -> (bool, String) {
    let mut a = Vec::new();
    for n in 0..4 {
        for s in [0, 10] {
            a.push(Op::Add(n, s));
        }
        a.push(Op::Remove(n));
    }
    let max_len = crate::bound(6, 7); // (the name says 6: the quick tier's bound)
    search(a, max_len, format!("<= {} operations out of add_rule / remove_rule over 4 names x saliences {{0,10}}, up to renaming", max_len))
}

/// Two threads and fixed iteration counts (no clock in the verdict): rule A (salience 0) stays; the writer adds and removes B
/// (salience 10, so A moves between position 0 and 1), disables / enables A and now and then clears and re-adds both; the reader
/// looks A, B and the never-stored C up.  Whatever the interleaving, a lookup of a name may only return a rule OF THAT NAME (or
/// nothing), and a listing holds each name at most once, in descending salience.  Nothing is reported unless such a lookup is
/// actually observed; a deadlock is reported by the watchdog.
fn c15_concurrent_lookup() -> (bool, String) {
    watched(|ticks, cur| {
        let rounds: usize = crate::bound(20000, 200000);
        let tmpl = template();
        let kb = Arc::new(KnowledgeBase::new("c15"));
        let mk = |n: usize, s: i32| {
            let mut r = tmpl.clone();
            r.name = NAMES[n].to_string();
            r.salience = s;
            r
        };
        let _ = kb.add_rule(mk(0, 0));
        if let Ok(mut c) = cur.lock() {
            *c = "2 threads: writer {add B(10), set_rule_enabled(A), remove B, every 50th round clear + add A} / reader {get_rule A, B, C; get_rules}".to_string();
        }
        let done = Arc::new(AtomicBool::new(false));
        let bad: Arc<Mutex<Option<String>>> = Arc::new(Mutex::new(None));
        let reader = {
            let (kb, done, bad) = (kb.clone(), done.clone(), bad.clone());
            std::thread::spawn(move || {
                let mut lookups = 0u64;
                while !done.load(Ordering::SeqCst) {
                    for name in ["A", "B", "C"] {
                        lookups += 1;
                        if let Some(r) = kb.get_rule(name) {
                            if r.name != name {
                                *bad.lock().unwrap() = Some(format!("get_rule({}) returned the rule named {} while the other thread was adding / removing B", name, r.name));
                                return lookups;
                            }
                        }
                    }
                    let l = kb.get_rules();
                    let names: Vec<&str> = l.iter().map(|r| r.name.as_str()).collect();
                    let sorted = l.windows(2).all(|w| w[0].salience >= w[1].salience);
                    let dup = (1..names.len()).any(|i| names[..i].contains(&names[i]));
                    if !sorted || dup {
                        *bad.lock().unwrap() = Some(format!("get_rules() returned {:?} (saliences {:?}) while the other thread was adding / removing B", names, l.iter().map(|r| r.salience).collect::<Vec<_>>()));
                        return lookups;
                    }
                }
                lookups
            })
        };
        for i in 0..rounds {
            ticks.fetch_add(1, Ordering::Relaxed);
            let _ = kb.add_rule(mk(1, 10));
            let _ = kb.set_rule_enabled("A", i % 2 == 0);
            let _ = kb.remove_rule("B");
            if i % 50 == 49 {
                kb.clear();
                let _ = kb.add_rule(mk(0, 0));
            }
            if bad.lock().unwrap().is_some() {
                break;
            }
        }
        done.store(true, Ordering::SeqCst);
        let lookups = reader.join().unwrap_or(0);
        // the sequential end state is known whatever the interleaving was
        let end: Vec<String> = kb.get_rules().iter().map(|r| r.name.clone()).collect();
        let found = bad.lock().unwrap().clone();
        match found {
            Some(d) => (true, d),
            None if end != vec!["A".to_string()] => (true, format!("after the writer finished (last operations: add B, set_rule_enabled A, remove B) get_rules() = {:?}, expected [A]", end)),
            None => (false, format!("{} writer rounds against a concurrently looping reader ({}): every lookup returned a rule of the name asked for (or none)", rounds, if lookups > 0 { "it ran" } else { "it never ran" })),
        }
    })
}

pub fn witnesses() -> Vec<crate::W> {
    vec![
        ("c15_kb_search_4ops", c15_kb_search_4ops),
        ("c15_kb_search_5ops", c15_kb_search_5ops),
        ("c15_kb_search_6ops", c15_kb_search_6ops),
        ("c15_concurrent_lookup", c15_concurrent_lookup),
    ]
}
