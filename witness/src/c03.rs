//! C03 witnesses: "execute always returns, within max_cycles, at a fixpoint or at the bound".  Wire into main.rs with
//! `mod c03;` + `all.extend(c03::witnesses());`
//!
//! Reference (from the statement): a call makes passes over the rules (descending salience, ties in insertion order; a no-loop
//! rule that has fired is no longer eligible; at most one rule of an activation group per pass) until a pass fires nothing or
//! max_cycles passes were made.  Checked on every run (wall-clock timeout disabled, every call under a watchdog):
//!   * the call returns Ok;  cycle_count <= max_cycles;  rules_fired == number of firings (callback invocations for
//!     execute_with_callback, the reference's count for execute_at_time/execute) and the firing sequence / final facts are the
//!     reference's;
//!   * the number of passes actually made (counted independently by a never-true probe rule whose condition calls a registered
//!     function) is the reference's: it stops before the bound exactly when a pass fired nothing; cycle_count ("reports a cycle
//!     count") is read as that number of passes, the final pass that fired nothing included;
//!   * when it stopped before the bound no still-eligible rule has a true condition on the final facts (conditions re-evaluated
//!     by the reference on the engine's final facts).
use rust_rule_engine::{ActionType, Condition, ConditionGroup, EngineConfig, Facts, KnowledgeBase, Operator, Rule, RustRuleEngine, Value};
use std::collections::BTreeSet;
use std::sync::atomic::{AtomicUsize, Ordering};
use std::sync::{Arc, Mutex};

fn guarded(secs: u64, f: fn(&Arc<Mutex<String>>) -> (bool, String)) -> (bool, String) {
    let progress = Arc::new(Mutex::new(String::new()));
    let p2 = progress.clone();
    let (tx, rx) = std::sync::mpsc::channel();
    std::thread::spawn(move || {
        let r = std::panic::catch_unwind(std::panic::AssertUnwindSafe(|| f(&p2)));
        let _ = tx.send(r);
    });
    match rx.recv_timeout(std::time::Duration::from_secs(secs)) {
        Ok(Ok(r)) => r,
        Ok(Err(_)) => (true, format!("panicked while processing: {}", progress.lock().map(|s| s.clone()).unwrap_or_default())),
        Err(_) => (true, format!("did not return within {} s (normally < 10 ms per call) while processing: {}", secs, progress.lock().map(|s| s.clone()).unwrap_or_default())),
    }
}

/// facts: n, t (integers), f, g (booleans)
#[derive(Clone, Copy, Debug, PartialEq)]
struct St {
    n: i64,
    t: i64,
    f: bool,
    g: bool,
}

#[derive(Clone, Copy, Debug, PartialEq)]
enum Tpl {
    Inc3,       // when n < 3 then n = n + 1          self-triggering, stops by itself
    IncForever, // when n >= 0 then n = n + 1         self-triggering for ever
    Ping,       // when t == 0 then t = 1             } trigger each other for ever
    Pong,       // when t == 1 then t = 0             }
    Idle,       // when n >= 0 then <nothing>         empty action list, true on every pass
    Never,      // when n < 0 then n = 100
    Once,       // when f == false then f = true
    After,      // when f == true then g = true       triggered by Once, then true for ever
    Dec,        // when n > 1 && g == false then n = n - 1      oscillates with Inc3
}
const TPLS: [Tpl; 9] = [Tpl::Inc3, Tpl::IncForever, Tpl::Ping, Tpl::Pong, Tpl::Idle, Tpl::Never, Tpl::Once, Tpl::After, Tpl::Dec];

impl Tpl {
    fn text(&self) -> &'static str {
        match self {
            Tpl::Inc3 => "when n < 3 then n = n + 1",
            Tpl::IncForever => "when n >= 0 then n = n + 1",
            Tpl::Ping => "when t == 0 then t = 1",
            Tpl::Pong => "when t == 1 then t = 0",
            Tpl::Idle => "when n >= 0 then <no actions>",
            Tpl::Never => "when n < 0 then n = 100",
            Tpl::Once => "when f == false then f = true",
            Tpl::After => "when f == true then g = true",
            Tpl::Dec => "when n > 1 && g == false then n = n - 1",
        }
    }
    // reference
    fn holds(&self, s: &St) -> bool {
        match self {
            Tpl::Inc3 => s.n < 3,
            Tpl::IncForever => s.n >= 0,
            Tpl::Ping => s.t == 0,
            Tpl::Pong => s.t == 1,
            Tpl::Idle => s.n >= 0,
            Tpl::Never => s.n < 0,
            Tpl::Once => !s.f,
            Tpl::After => s.f,
            Tpl::Dec => s.n > 1 && !s.g,
        }
    }
    fn run(&self, s: &mut St) {
        match self {
            Tpl::Inc3 | Tpl::IncForever => s.n += 1,
            Tpl::Ping => s.t = 1,
            Tpl::Pong => s.t = 0,
            Tpl::Idle => {}
            Tpl::Never => s.n = 100,
            Tpl::Once => s.f = true,
            Tpl::After => s.g = true,
            Tpl::Dec => s.n -= 1,
        }
    }
    // the real rule
    fn condition(&self) -> ConditionGroup {
        let c = |f: &str, op: Operator, v: Value| ConditionGroup::single(Condition::new(f.to_string(), op, v));
        match self {
            Tpl::Inc3 => c("n", Operator::LessThan, Value::Integer(3)),
            Tpl::IncForever => c("n", Operator::GreaterThanOrEqual, Value::Integer(0)),
            Tpl::Ping => c("t", Operator::Equal, Value::Integer(0)),
            Tpl::Pong => c("t", Operator::Equal, Value::Integer(1)),
            Tpl::Idle => c("n", Operator::GreaterThanOrEqual, Value::Integer(0)),
            Tpl::Never => c("n", Operator::LessThan, Value::Integer(0)),
            Tpl::Once => c("f", Operator::Equal, Value::Boolean(false)),
            Tpl::After => c("f", Operator::Equal, Value::Boolean(true)),
            Tpl::Dec => ConditionGroup::and(c("n", Operator::GreaterThan, Value::Integer(1)), c("g", Operator::Equal, Value::Boolean(false))),
        }
    }
    fn actions(&self) -> Vec<ActionType> {
        let set = |f: &str, v: Value| ActionType::Set { field: f.to_string(), value: v };
        match self {
            Tpl::Inc3 | Tpl::IncForever => vec![set("n", Value::Expression("n + 1".into()))],
            Tpl::Ping => vec![set("t", Value::Integer(1))],
            Tpl::Pong => vec![set("t", Value::Integer(0))],
            Tpl::Idle => vec![],
            Tpl::Never => vec![set("n", Value::Integer(100))],
            Tpl::Once => vec![set("f", Value::Boolean(true))],
            Tpl::After => vec![set("g", Value::Boolean(true))],
            Tpl::Dec => vec![set("n", Value::Expression("n - 1".into()))],
        }
    }
}

#[derive(Clone, Debug)]
struct RuleD {
    name: String,
    tpl: Tpl,
    no_loop: bool,
    act: bool, // member of activation group "ag"
    sal: i32,
}
fn describe(rs: &[RuleD]) -> String {
    rs.iter()
        .map(|r| format!("{}[salience {}{}{}: {}]", r.name, r.sal, if r.no_loop { ", no-loop" } else { "" }, if r.act { ", activation-group ag" } else { "" }, r.tpl.text()))
        .collect::<Vec<_>>()
        .join(" ")
}

struct Sim {
    fired: Vec<String>,
    passes: usize,
    end: St,
    fired_no_loop: BTreeSet<String>,
}
fn simulate(rules: &[RuleD], start: St, max_cycles: usize) -> Sim {
    let mut s = start;
    let mut fired = vec![];
    let mut done: BTreeSet<String> = BTreeSet::new();
    let mut passes = 0;
    let mut order: Vec<usize> = (0..rules.len()).collect();
    order.sort_by(|a, b| rules[*b].sal.cmp(&rules[*a].sal).then(a.cmp(b)));
    for _ in 0..max_cycles {
        passes += 1;
        let mut any = false;
        let mut group_fired = false;
        for k in &order {
            let r = &rules[*k];
            if (r.no_loop && done.contains(&r.name)) || (r.act && group_fired) {
                continue;
            }
            if r.tpl.holds(&s) {
                r.tpl.run(&mut s);
                fired.push(r.name.clone());
                any = true;
                if r.no_loop {
                    done.insert(r.name.clone());
                }
                if r.act {
                    group_fired = true;
                }
            }
        }
        if !any {
            break;
        }
    }
    Sim { fired, passes, end: s, fired_no_loop: done }
}

fn read_state(facts: &Facts) -> Option<St> {
    let n = match facts.get("n") {
        Some(Value::Integer(x)) => x,
        Some(Value::Number(x)) if x.fract() == 0.0 => x as i64,
        _ => return None,
    };
    let t = match facts.get("t") {
        Some(Value::Integer(x)) => x,
        _ => return None,
    };
    let f = match facts.get("f") {
        Some(Value::Boolean(x)) => x,
        _ => return None,
    };
    let g = match facts.get("g") {
        Some(Value::Boolean(x)) => x,
        _ => return None,
    };
    Some(St { n, t, f, g })
}

#[derive(Clone, Copy, PartialEq, Debug)]
enum Path {
    Callback, // execute_with_callback, with the pass-counting probe rule
    AtTime,   // execute_at_time, the rule set exactly as given
    Plain,    // execute
}

fn check_run(rules: &[RuleD], start: St, max_cycles: usize, path: Path) -> Option<String> {
    let kb = KnowledgeBase::new("c03");
    for r in rules {
        let mut rule = Rule::new(r.name.clone(), r.tpl.condition(), r.tpl.actions()).with_salience(r.sal).with_no_loop(r.no_loop);
        if r.act {
            rule = rule.with_activation_group("ag".to_string());
        }
        kb.add_rule(rule).unwrap();
    }
    let probe_count = Arc::new(AtomicUsize::new(0));
    if path == Path::Callback {
        // never fires; its condition is evaluated once per pass
        kb.add_rule(Rule::new("probe".into(), ConditionGroup::single(Condition::with_function("probe".into(), vec![], Operator::Equal, Value::Boolean(true))), vec![]).with_salience(1000)).unwrap();
    }
    let mut engine = RustRuleEngine::with_config(kb, EngineConfig { max_cycles, timeout: None, enable_stats: false, debug_mode: false });
    if path == Path::Callback {
        let pc = probe_count.clone();
        engine.register_function("probe", move |_, _| {
            pc.fetch_add(1, Ordering::SeqCst);
            Ok(Value::Boolean(false))
        });
    }
    let facts = Facts::new();
    facts.set("n", Value::Integer(start.n));
    facts.set("t", Value::Integer(start.t));
    facts.set("f", Value::Boolean(start.f));
    facts.set("g", Value::Boolean(start.g));
    let sim = simulate(rules, start, max_cycles);
    let ctx = || format!("rules (in insertion order) {}; facts n={} t={} f={} g={}; max_cycles {}, timeout none, {:?}", describe(rules), start.n, start.t, start.f, start.g, max_cycles, path);
    let calls: Arc<Mutex<Vec<String>>> = Arc::new(Mutex::new(vec![]));
    let res = match path {
        Path::Callback => {
            let c2 = calls.clone();
            engine.execute_with_callback(&facts, move |n, _| c2.lock().unwrap().push(n.to_string()))
        }
        Path::AtTime => {
            let when = Rule::new("t".into(), Tpl::Idle.condition(), vec![]).with_date_effective_str("2030-06-01T00:00:00Z").unwrap().date_effective.unwrap();
            engine.execute_at_time(&facts, when)
        }
        Path::Plain => engine.execute(&facts),
    };
    let res = match res {
        Ok(r) => r,
        Err(e) => return Some(format!("{}: returned Err({})", ctx(), e)),
    };
    if res.cycle_count > max_cycles {
        return Some(format!("{}: cycle_count = {} > max_cycles", ctx(), res.cycle_count));
    }
    let firings = if path == Path::Callback {
        let calls = calls.lock().unwrap().clone();
        if calls != sim.fired {
            return Some(format!("{}: fired {:?}, expected {:?}", ctx(), calls, sim.fired));
        }
        calls.len()
    } else {
        sim.fired.len()
    };
    if res.rules_fired != firings {
        return Some(format!("{}: rules_fired = {}, number of firings = {}", ctx(), res.rules_fired, firings));
    }
    let end = match read_state(&facts) {
        Some(e) => e,
        None => return Some(format!("{}: final facts unreadable: n={:?} t={:?} f={:?} g={:?}", ctx(), facts.get("n"), facts.get("t"), facts.get("f"), facts.get("g"))),
    };
    if end != sim.end {
        return Some(format!("{}: final facts {:?}, expected {:?} (firing sequence {:?})", ctx(), end, sim.end, sim.fired));
    }
    if path == Path::Callback {
        let passes = probe_count.load(Ordering::SeqCst);
        if passes > max_cycles {
            return Some(format!("{}: made {} passes > max_cycles", ctx(), passes));
        }
        if passes != sim.passes {
            return Some(format!(
                "{}: made {} passes, expected {} ({})",
                ctx(),
                passes,
                sim.passes,
                if sim.passes < max_cycles { "stop after the first pass that fires nothing" } else { "every pass up to the bound fires a rule" }
            ));
        }
        if res.cycle_count != passes {
            return Some(format!("{}: cycle_count = {} but {} passes were made", ctx(), res.cycle_count, passes));
        }
    } else if res.cycle_count != sim.passes {
        return Some(format!("{}: cycle_count = {}, expected {} passes", ctx(), res.cycle_count, sim.passes));
    }
    // fixpoint when it stopped before the bound
    if res.cycle_count < max_cycles {
        for r in rules {
            let eligible = !(r.no_loop && sim.fired_no_loop.contains(&r.name));
            if eligible && r.tpl.holds(&end) {
                return Some(format!("{}: stopped after {} passes with final facts {:?}, on which the still-eligible rule {} has a true condition", ctx(), res.cycle_count, end, r.name));
            }
        }
    }
    None
}

fn variants() -> Vec<(Tpl, bool, bool)> {
    let mut v = vec![];
    for t in TPLS {
        for nl in [false, true] {
            v.push((t, nl, false));
            if matches!(t, Tpl::Inc3 | Tpl::Idle | Tpl::Once) {
                v.push((t, nl, true));
            }
        }
    }
    v
}

/// rule sets of 1..3 rules x max_cycles 0..4
fn c03_cycle_bound_fixpoint_search_inner(progress: &Arc<Mutex<String>>) -> (bool, String) {
    let vars = variants();
    let starts = [St { n: 0, t: 0, f: false, g: false }, St { n: 2, t: 1, f: true, g: false }];
    let mut tried = 0u64;
    // every set of 1..=3 variants (thorough tier: 1..=5), in the order a; a,b; a,b,c; ..
    let (max_size, top_cycles) = (crate::bound(3, 5), crate::bound(4, 6));
    let mut sets: Vec<Vec<usize>> = vec![];
    fn extend(v: &mut Vec<Vec<usize>>, cur: &mut Vec<usize>, from: usize, n: usize, max_size: usize) {
        for a in from..n {
            cur.push(a);
            v.push(cur.clone());
            if cur.len() < max_size {
                extend(v, cur, a + 1, n, max_size);
            }
            cur.pop();
        }
    }
    extend(&mut sets, &mut Vec::new(), 0, vars.len(), max_size);
    sets.sort_by_key(|s| s.len()); // smallest rule sets first, so that a reported input is small
    for (si, set) in sets.iter().enumerate() {
        // two salience patterns: all tied (insertion order decides) / ascending (the rule added last goes first)
        for pattern in 0..2 {
            if pattern == 1 && set.len() == 1 {
                continue;
            }
            let rules: Vec<RuleD> = set
                .iter()
                .enumerate()
                .map(|(k, v)| RuleD { name: format!("r{}", k), tpl: vars[*v].0, no_loop: vars[*v].1, act: vars[*v].2, sal: if pattern == 0 { 0 } else { k as i32 - 1 } })
                .collect();
            for (sti, start) in starts.iter().enumerate() {
                if sti == 1 && set.len() >= 3 && si % 4 != 0 {
                    continue;
                }
                for max_cycles in 0..=top_cycles {
                    // the callback route (with the pass probe) always; the other two routes alternate
                    let other = if (si + max_cycles) % 2 == 0 { Path::AtTime } else { Path::Plain };
                    for path in [Path::Callback, other] {
                        *progress.lock().unwrap() = format!("{}; start {:?}; max_cycles {}; {:?}", describe(&rules), start, max_cycles, path);
                        tried += 1;
                        if let Some(bad) = check_run(&rules, *start, max_cycles, path) {
                            return (true, bad);
                        }
                    }
                }
            }
        }
    }
    (false, format!("{} runs: every set of 1..{} rules from 24 variants (self-triggering, mutually triggering, empty action list, never true, once, chained; with/without no-loop; activation group), tied and ascending saliences, 2 start states, max_cycles 0..{}, execute_with_callback + execute_at_time/execute", tried, max_size, top_cycles))
}
fn c03_cycle_bound_fixpoint_search() -> (bool, String) {
    guarded(crate::bound(40, 900) as u64, c03_cycle_bound_fixpoint_search_inner) // (whole-search watchdog)
}

/// larger bounds: single rules and pairs with max_cycles in {5, 7, 63, 64}
fn c03_large_bound_search_inner(progress: &Arc<Mutex<String>>) -> (bool, String) {
    let vars = variants();
    let start = St { n: 0, t: 0, f: false, g: false };
    let bounds: &[usize] = if crate::thorough() { &[5, 7, 63, 64, 65, 128, 500] } else { &[5, 7, 63, 64] };
    let mut tried = 0u64;
    for a in 0..vars.len() {
        for b in a..vars.len() {
            let mut rules = vec![RuleD { name: "r0".into(), tpl: vars[a].0, no_loop: vars[a].1, act: vars[a].2, sal: 0 }];
            if b > a {
                rules.push(RuleD { name: "r1".into(), tpl: vars[b].0, no_loop: vars[b].1, act: vars[b].2, sal: 1 });
            }
            for &max_cycles in bounds {
                if b > a && (max_cycles == 7 || max_cycles == 63) && (a + b) % 3 != 0 {
                    continue;
                }
                for path in [Path::Callback, Path::AtTime] {
                    *progress.lock().unwrap() = format!("{}; max_cycles {}; {:?}", describe(&rules), max_cycles, path);
                    tried += 1;
                    if let Some(bad) = check_run(&rules, start, max_cycles, path) {
                        return (true, bad);
                    }
                }
            }
        }
    }
    (false, format!("{} runs: every rule and pair of rules from the 24 variants with max_cycles in {:?}", tried, bounds))
}
fn c03_large_bound_search() -> (bool, String) {
    guarded(crate::bound(40, 900) as u64, c03_large_bound_search_inner) // (whole-search watchdog)
}

pub fn witnesses() -> Vec<crate::W> {
    vec![
        ("c03_cycle_bound_fixpoint_search", c03_cycle_bound_fixpoint_search),
        ("c03_large_bound_search", c03_large_bound_search),
    ]
}
