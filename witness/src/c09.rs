//! C09 — "If a backward-chaining query is reported provable, the goal comparison is true in the facts handed back to the caller and is
//! true in the forward closure of the rule set on the initial facts.  Under the default depth-first strategy, a goal that has a
//! derivation of height at most max_depth through rules with conjunctive conditions is reported provable."
//! Companion of unit search_sound (which puts the FIRST half-sentence under contract, relative to an uninterpreted goal check); this
//! file is the bounded look at the rest.  Register in main.rs with `mod c09;` and `all.extend(c09::witnesses());`.
//!
//! Space (quick tier; the thorough tier takes every set of <= 3 rules): every set of <= 2 rules (plus the 3-rule sets that contain a
//! wrong-value or cyclic rule together with a chain) out of a pool of 10 Horn-style rules over the 4 boolean fields A, P, Q, G — chains,
//! a conjunction, shared sub-goals, wrong-value conclusions (G.v = false, P.v = false), a cycle (G -> P -> G), dead ends (a condition no
//! rule of the set concludes), a condition on `false`; ALL 81 initial stores (each field absent / true / false); every atomic goal
//! `F.v == true|false` (8); DepthFirst / BreadthFirst / Iterative; max_depth 0, 1, 3; max_solutions 1 and 2 (the other two strategies
//! ignore max_solutions); memoisation off.
//! References, written from the statement:
//!   holds(goal, store)        the field is present with exactly that boolean
//!   forward closure           every store reachable from the initial one by firing enabled rules of the set in ANY order (a rule is
//!                             enabled when all its conditions hold; firing assigns its literal).  With wrong-value conclusions the
//!                             closure is not one store; a provable goal is reported only if it holds in NO reachable store — the
//!                             weakest reading, so that everything reported is a violation under every reading.
//!   derivation height         0 if the goal holds in the initial store; 1 + max height of the conditions of a rule concluding it.
//!                             Completeness is only asked where derivations compose: (rule set, store) pairs in which no field is
//!                             given two different values by the store and the rules' conclusions together.
//!
//!   c09_dfs_subgoal_proof_reported_as_proof_of_the_goal      fixed history (found by Verus: C09.dfs_true_only_when_the_goal_check_held_
//!        on_the_facts_kept failed at the `if !self.solutions.is_empty()` exit of search_recursive_with_execution before the fix):
//!        p_from_a, g_from_pq, facts {A.v: true}, DepthFirst, query "G.v == true" -> provable, G.v absent from the facts handed back
//!   c09_dfs_wrong_value_conclusion_reported_provable        same defect, the history with a wrong-value conclusion: provable while the
//!        forward closure has G.v = false
//!   c09_provable_goal_holds_search_{dfs,bfs,iterative}      (a) provable ==> holds in the facts handed back AND in the forward closure;
//!        max_solutions 1
//!   c09_dfs_several_solutions_provable_with_every_proof_rolled_back    max_solutions 2, DepthFirst: the violations of (a) with the
//!        signature "provable, facts handed back == initial facts, goal derivable" (OPEN FINDING: obligation
//!        C09.dfs_top_goal_true_only_when_the_goal_check_held_on_the_facts_kept_several_solutions_wanted)
//!   c09_dfs_several_solutions_search                        max_solutions 2, DepthFirst: every OTHER violation of (a)
//!   c09_dfs_bounded_completeness_search                     (b), max_solutions 1 and 2
use rust_rule_engine::backward::{BackwardConfig, BackwardEngine, SearchStrategy};
use rust_rule_engine::{ActionType, Condition, ConditionGroup, Facts, KnowledgeBase, Operator, Rule, Value};
use std::panic::{catch_unwind, AssertUnwindSafe};

const FIELDS: [&str; 4] = ["A", "P", "Q", "G"];
const A: usize = 0;
const P: usize = 1;
const Q: usize = 2;
const G: usize = 3;

struct Tmpl {
    name: &'static str,
    conds: &'static [(usize, bool)],
    act: (usize, bool),
}

const POOL: [Tmpl; 10] = [
    Tmpl { name: "p_from_a", conds: &[(A, true)], act: (P, true) },
    Tmpl { name: "q_from_a", conds: &[(A, true)], act: (Q, true) },
    Tmpl { name: "q_from_p", conds: &[(P, true)], act: (Q, true) },
    Tmpl { name: "g_from_pq", conds: &[(P, true), (Q, true)], act: (G, true) },
    Tmpl { name: "g_from_p", conds: &[(P, true)], act: (G, true) },
    Tmpl { name: "g_wrong_from_p", conds: &[(P, true)], act: (G, false) },
    Tmpl { name: "g_from_q", conds: &[(Q, true)], act: (G, true) },
    Tmpl { name: "p_from_g", conds: &[(G, true)], act: (P, true) },
    Tmpl { name: "p_wrong_from_a", conds: &[(A, true)], act: (P, false) },
    Tmpl { name: "g_from_a_and_not_q", conds: &[(A, true), (Q, false)], act: (G, true) },
];

type Store = [Option<bool>; 4];

fn key(f: usize) -> String {
    format!("{}.v", FIELDS[f])
}
fn atom(f: usize, b: bool) -> ConditionGroup {
    ConditionGroup::single(Condition::new(key(f), Operator::Equal, Value::Boolean(b)))
}
fn build(t: &Tmpl) -> Rule {
    let mut g = atom(t.conds[0].0, t.conds[0].1);
    for c in &t.conds[1..] {
        g = ConditionGroup::and(g, atom(c.0, c.1));
    }
    Rule::new(t.name.to_string(), g, vec![ActionType::Set { field: key(t.act.0), value: Value::Boolean(t.act.1) }])
}
fn describe(set: &[usize]) -> String {
    set.iter()
        .map(|&i| {
            let t = &POOL[i];
            let c: Vec<String> = t.conds.iter().map(|c| format!("{}.v == {}", FIELDS[c.0], c.1)).collect();
            format!("{}: {} => {}.v = {}", t.name, c.join(" && "), FIELDS[t.act.0], t.act.1)
        })
        .collect::<Vec<_>>()
        .join(" | ")
}
fn decode(mut code: usize) -> Store {
    let mut s = [None; 4];
    for slot in s.iter_mut() {
        *slot = match code % 3 {
            0 => None,
            1 => Some(true),
            _ => Some(false),
        };
        code /= 3;
    }
    s
}
fn encode(s: &Store) -> usize {
    let mut code = 0;
    for f in (0..4).rev() {
        code = code * 3
            + match s[f] {
                None => 0,
                Some(true) => 1,
                Some(false) => 2,
            };
    }
    code
}
fn show(s: &Store) -> String {
    let v: Vec<String> = (0..4).filter_map(|f| s[f].map(|b| format!("{}.v: {}", FIELDS[f], b))).collect();
    format!("{{{}}}", v.join(", "))
}
fn facts_of(s: &Store) -> Facts {
    let f = Facts::new();
    for i in 0..4 {
        if let Some(b) = s[i] {
            f.set(&key(i), Value::Boolean(b));
        }
    }
    f
}
/// the store as the real Facts hold it afterwards; None if a field holds something that is not a boolean or an unknown key appeared
fn read_back(f: &Facts) -> Option<Store> {
    let mut s = [None; 4];
    let all = f.get_all_facts();
    for (k, v) in all.iter() {
        let i = (0..4).find(|&i| key(i) == *k)?;
        match v {
            Value::Boolean(b) => s[i] = Some(*b),
            _ => return None,
        }
    }
    Some(s)
}

// ---- references -----------------------------------------------------------------------------------------------------------------
fn enabled(t: &Tmpl, s: &Store) -> bool {
    t.conds.iter().all(|c| s[c.0] == Some(c.1))
}
/// every store reachable by firing enabled rules of the set in any order (including the initial one)
fn closure(set: &[usize], s0: &Store) -> Vec<Store> {
    let mut seen = vec![false; 81];
    let mut out = Vec::new();
    let mut work = vec![*s0];
    seen[encode(s0)] = true;
    while let Some(s) = work.pop() {
        out.push(s);
        for &i in set {
            let t = &POOL[i];
            if enabled(t, &s) {
                let mut n = s;
                n[t.act.0] = Some(t.act.1);
                if !seen[encode(&n)] {
                    seen[encode(&n)] = true;
                    work.push(n);
                }
            }
        }
    }
    out
}
/// no field is given two different values by the store and the conclusions of the set together
fn consistent(set: &[usize], s0: &Store) -> bool {
    (0..4).all(|f| {
        let mut vals: Vec<bool> = Vec::new();
        if let Some(b) = s0[f] {
            vals.push(b);
        }
        for &i in set {
            if POOL[i].act.0 == f && !vals.contains(&POOL[i].act.1) {
                vals.push(POOL[i].act.1);
            }
        }
        vals.len() <= 1
    })
}
const INF: usize = 1000;
/// derivation height of every atom (field, value) from s0 through the rules of the set
fn heights(set: &[usize], s0: &Store) -> [[usize; 2]; 4] {
    let mut h = [[INF; 2]; 4];
    for f in 0..4 {
        if let Some(b) = s0[f] {
            h[f][b as usize] = 0;
        }
    }
    for _ in 0..8 {
        for &i in set {
            let t = &POOL[i];
            let m = t.conds.iter().map(|c| h[c.0][c.1 as usize]).max().unwrap_or(0);
            if m < INF && m + 1 < h[t.act.0][t.act.1 as usize] {
                h[t.act.0][t.act.1 as usize] = m + 1;
            }
        }
    }
    h
}

// ---- the enumeration ---------------------------------------------------------------------------------------------------------------
fn rule_sets() -> Vec<Vec<usize>> {
    let n = POOL.len();
    let mut sets: Vec<Vec<usize>> = Vec::new();
    for a in 0..n {
        sets.push(vec![a]);
    }
    for a in 0..n {
        for b in a + 1..n {
            sets.push(vec![a, b]);
        }
    }
    for a in 0..n {
        for b in a + 1..n {
            for c in b + 1..n {
                // quick tier: the 3-rule sets around the chain p_from_a -> .. -> G (shared sub-goals, wrong values, the cycle)
                if crate::thorough() || a == 0 {
                    sets.push(vec![a, b, c]);
                }
            }
        }
    }
    sets
}
fn engine(set: &[usize], strategy: SearchStrategy, depth: usize, max_solutions: usize) -> BackwardEngine {
    let kb = KnowledgeBase::new("c09");
    for &i in set {
        kb.add_rule(build(&POOL[i])).unwrap();
    }
    BackwardEngine::with_config(kb, BackwardConfig { max_depth: depth, strategy, enable_memoization: false, max_solutions })
}
fn ask(e: &mut BackwardEngine, q: &str, f: &mut Facts) -> Option<bool> {
    match catch_unwind(AssertUnwindSafe(|| e.query(q, f).map(|r| r.provable))) {
        Ok(Ok(b)) => Some(b),
        _ => None,
    }
}
fn quiet<T>(work: impl FnOnce() -> T) -> T {
    let hook = std::panic::take_hook();
    std::panic::set_hook(Box::new(|_| {}));
    let r = work();
    std::panic::set_hook(hook);
    r
}
/// runs `work` in a thread; a search that does not come back within the watchdog is itself reported
fn watched(what: &'static str, work: impl FnOnce() -> (bool, String) + Send + 'static) -> (bool, String) {
    let (tx, rx) = std::sync::mpsc::channel();
    std::thread::spawn(move || {
        let _ = tx.send(work());
    });
    match rx.recv_timeout(std::time::Duration::from_secs(300)) {
        Ok(r) => r,
        Err(_) => (true, format!("{}: the enumeration did not return within 300 s (a query does not terminate?)", what)),
    }
}

#[derive(Clone, Copy, PartialEq)]
enum Report {
    /// every violation of (a)
    All,
    /// only: provable, facts handed back == initial facts, goal holds somewhere in the forward closure (every proof rolled back)
    RolledBack,
    /// every violation of (a) except those
    Other,
}

/// (a) provable ==> the goal comparison holds in the facts handed back AND somewhere in the forward closure
fn soundness(strategy: SearchStrategy, max_solutions: usize, report: Report) -> (bool, String) {
    quiet(|| {
        let sets = rule_sets();
        let mut asked = 0u64;
        let mut provable = 0u64;
        let mut hits = 0u64;
        let mut first: Option<String> = None;
        for set in &sets {
            for depth in [0usize, 1, 3] {
                let mut e = engine(set, strategy, depth, max_solutions);
                for code in 0..81 {
                    let s0 = decode(code);
                    let reach = closure(set, &s0);
                    for f in 0..4 {
                        for b in [true, false] {
                            let q = format!("{}.v == {}", FIELDS[f], b);
                            let mut facts = facts_of(&s0);
                            asked += 1;
                            if ask(&mut e, &q, &mut facts) != Some(true) {
                                continue;
                            }
                            provable += 1;
                            let after = read_back(&facts);
                            let holds_after = after.map(|s| s[f] == Some(b)).unwrap_or(false);
                            let derivable = reach.iter().any(|s| s[f] == Some(b));
                            if holds_after && derivable {
                                continue;
                            }
                            let rolled_back = !holds_after && derivable && after == Some(s0);
                            let wanted = match report {
                                Report::All => true,
                                Report::RolledBack => rolled_back,
                                Report::Other => !rolled_back,
                            };
                            if !wanted {
                                continue;
                            }
                            hits += 1;
                            if first.is_none() {
                                first = Some(format!(
                                    "rules [{}]; {:?}, max_depth {}, max_solutions {}, memoisation off; initial facts {}; query({}) = provable; facts handed back {}: goal comparison {} there; goal {} in the forward closure of the rule set on the initial facts",
                                    describe(set),
                                    strategy,
                                    depth,
                                    max_solutions,
                                    show(&s0),
                                    q,
                                    after.map(|s| show(&s)).unwrap_or_else(|| "(not a boolean store)".to_string()),
                                    if holds_after { "holds" } else { "DOES NOT HOLD" },
                                    if derivable { "holds somewhere" } else { "holds NOWHERE" },
                                ));
                            }
                        }
                    }
                }
            }
        }
        match first {
            Some(d) => (true, format!("{} ({} such queries among {} provable of {} asked)", d, hits, provable, asked)),
            None => (
                false,
                format!(
                    "{} rule sets x 81 initial stores x 8 atomic goals x max_depth 0/1/3, {:?}, max_solutions {}: {} queries, {} provable, {}",
                    sets.len(), strategy, max_solutions, asked, provable,
                    match report {
                        Report::All => "each holds in the facts handed back and in the forward closure",
                        Report::RolledBack => "none is reported provable with the initial facts handed back unchanged and the goal not holding in them",
                        Report::Other => "each holds in the facts handed back and in the forward closure, or is of the kind the witness c09_dfs_several_solutions_provable_with_every_proof_rolled_back reports",
                    }
                ),
            ),
        }
    })
}

/// (b) DepthFirst: a goal with a derivation of height <= max_depth is reported provable (pairs without conflicting values only)
fn completeness() -> (bool, String) {
    quiet(|| {
        let sets = rule_sets();
        let mut asked = 0u64;
        let mut hits = 0u64;
        let mut first: Option<String> = None;
        for set in &sets {
            for max_solutions in [1usize, 2] {
                for depth in [0usize, 1, 3] {
                    let mut e = engine(set, SearchStrategy::DepthFirst, depth, max_solutions);
                    for code in 0..81 {
                        let s0 = decode(code);
                        if !consistent(set, &s0) {
                            continue;
                        }
                        let h = heights(set, &s0);
                        for f in 0..4 {
                            for b in [true, false] {
                                if h[f][b as usize] > depth {
                                    continue;
                                }
                                let q = format!("{}.v == {}", FIELDS[f], b);
                                let mut facts = facts_of(&s0);
                                asked += 1;
                                let r = ask(&mut e, &q, &mut facts);
                                if r == Some(true) {
                                    continue;
                                }
                                hits += 1;
                                if first.is_none() {
                                    first = Some(format!(
                                        "rules [{}]; DepthFirst, max_depth {}, max_solutions {}, memoisation off; initial facts {}; {} has a derivation of height {} <= max_depth; query = {}",
                                        describe(set), depth, max_solutions, show(&s0), q, h[f][b as usize],
                                        match r { Some(false) => "NOT provable", _ => "error / panic" },
                                    ));
                                }
                            }
                        }
                    }
                }
            }
        }
        match first {
            Some(d) => (true, format!("{} ({} such queries of {} asked)", d, hits, asked)),
            None => (false, format!("{} rule sets x consistent initial stores x goals with a derivation of height <= max_depth (0/1/3), max_solutions 1/2: {} queries, all provable", sets.len(), asked)),
        }
    })
}

fn fixed(set: &[usize], max_solutions: usize, closure_must_hold: bool) -> (bool, String) {
    quiet(|| {
        let s0: Store = [Some(true), None, None, None];
        let mut e = engine(set, SearchStrategy::DepthFirst, 5, max_solutions);
        let mut facts = facts_of(&s0);
        let r = ask(&mut e, "G.v == true", &mut facts);
        let after = read_back(&facts);
        let holds_after = after.map(|s| s[G] == Some(true)).unwrap_or(false);
        let derivable = closure(set, &s0).iter().any(|s| s[G] == Some(true));
        (
            r == Some(true) && (!holds_after || (closure_must_hold && !derivable)),
            format!(
                "rules [{}]; DepthFirst, max_depth 5, max_solutions {}, memoisation off; initial facts {}; query(G.v == true) = {}; facts handed back {}; G.v == true {} in the forward closure",
                describe(set), max_solutions, show(&s0),
                match r { Some(true) => "provable", Some(false) => "NOT provable", None => "error" },
                after.map(|s| show(&s)).unwrap_or_else(|| "(not a boolean store)".to_string()),
                if derivable { "holds somewhere" } else { "holds nowhere" },
            ),
        )
    })
}

fn c09_dfs_subgoal_proof_reported_as_proof_of_the_goal() -> (bool, String) {
    let a = fixed(&[0, 3], 1, true);
    if a.0 {
        return a;
    }
    let b = fixed(&[0, 3], 2, true);
    (b.0, format!("{} ;; {}", a.1, b.1))
}
fn c09_dfs_wrong_value_conclusion_reported_provable() -> (bool, String) {
    let a = fixed(&[0, 5], 1, true);
    if a.0 {
        return a;
    }
    let b = fixed(&[0, 5], 2, true);
    (b.0, format!("{} ;; {}", a.1, b.1))
}
fn c09_provable_goal_holds_search_dfs() -> (bool, String) {
    watched("c09_provable_goal_holds_search_dfs", || soundness(SearchStrategy::DepthFirst, 1, Report::All))
}
fn c09_provable_goal_holds_search_bfs() -> (bool, String) {
    watched("c09_provable_goal_holds_search_bfs", || soundness(SearchStrategy::BreadthFirst, 1, Report::All))
}
fn c09_provable_goal_holds_search_iterative() -> (bool, String) {
    watched("c09_provable_goal_holds_search_iterative", || soundness(SearchStrategy::Iterative, 1, Report::All))
}
fn c09_dfs_several_solutions_provable_with_every_proof_rolled_back() -> (bool, String) {
    watched("c09_dfs_several_solutions_provable_with_every_proof_rolled_back", || soundness(SearchStrategy::DepthFirst, 2, Report::RolledBack))
}
fn c09_dfs_several_solutions_search() -> (bool, String) {
    watched("c09_dfs_several_solutions_search", || soundness(SearchStrategy::DepthFirst, 2, Report::Other))
}
fn c09_dfs_bounded_completeness_search() -> (bool, String) {
    watched("c09_dfs_bounded_completeness_search", completeness)
}

pub fn witnesses() -> Vec<crate::W> {
    vec![
        ("c09_dfs_subgoal_proof_reported_as_proof_of_the_goal", c09_dfs_subgoal_proof_reported_as_proof_of_the_goal),
        ("c09_dfs_wrong_value_conclusion_reported_provable", c09_dfs_wrong_value_conclusion_reported_provable),
        ("c09_provable_goal_holds_search_dfs", c09_provable_goal_holds_search_dfs),
        ("c09_provable_goal_holds_search_bfs", c09_provable_goal_holds_search_bfs),
        ("c09_provable_goal_holds_search_iterative", c09_provable_goal_holds_search_iterative),
        ("c09_dfs_several_solutions_provable_with_every_proof_rolled_back", c09_dfs_several_solutions_provable_with_every_proof_rolled_back),
        ("c09_dfs_several_solutions_search", c09_dfs_several_solutions_search),
        ("c09_dfs_bounded_completeness_search", c09_dfs_bounded_completeness_search),
    ]
}
