//! C05 (third part) — byte-offset slicing in the small backward-chaining parsers that the Verus units expr_eval / grl_slices do not
//! (or only partly) put under contract: `backward::DisjunctionParser::{parse, contains_or}` (OR patterns), `backward::nested::NestedQueryParser::
//! {parse, has_nested}` (WHERE sub-queries), `backward::aggregation::parse_aggregate_query`, and `expression::evaluate_expression`.
//! Reference (from the property statement): every call returns a value or an error — a panic is a violation.  Nothing is said about
//! WHICH value is returned.
//!
//! * recorded inputs: the texts that made DisjunctionParser::parse panic before fix commit a0866e9 (a character index used as a byte
//!   offset of the &str: `(é OR b)`), and neighbours of them.
//! * bounded search: every string of at most 4-5 (thorough tier: 5-6) tokens over an alphabet with multi-byte characters, spaces, parentheses, quotes and the
//!   keywords of these parsers, wrapped the way each parser expects its text; every call under `catch_unwind`.
//! (The 2 GiB text that overflowed the i32 parenthesis counter of `find_operator` — fix commit 57c09f9 — is not replayed here: it needs
//!  2 GiB of memory and 45 s in a debug build.)
use rust_rule_engine::backward::DisjunctionParser;
use rust_rule_engine::engine::facts::Facts;
use rust_rule_engine::expression::evaluate_expression;

const TOKENS: [&str; 14] = ["a", "é", "€", " ", " OR ", "OR", "(", ")", "\"", "?x", " WHERE ", "count(", "+", "'"];

fn quiet<T>(f: impl FnOnce() -> T + std::panic::UnwindSafe) -> Result<T, ()> {
    std::panic::catch_unwind(f).map_err(|_| ())
}

fn enumerate(max_len: usize, mut visit: impl FnMut(&str) -> bool) -> (u64, Option<String>) {
    let n = TOKENS.len() as u64;
    let mut tried = 0u64;
    for len in 1..=max_len {
        for c in 0..n.pow(len as u32) {
            let mut s = String::new();
            let mut d = c;
            for _ in 0..len {
                s.push_str(TOKENS[(d % n) as usize]);
                d /= n;
            }
            tried += 1;
            if !visit(&s) {
                return (tried, Some(s));
            }
        }
    }
    (tried, None)
}

fn with_silent_panics<T>(f: impl FnOnce() -> T) -> T {
    let prev = std::panic::take_hook();
    std::panic::set_hook(Box::new(|_| {}));
    let r = f();
    std::panic::set_hook(prev);
    r
}

fn c05_disjunction_parser_recorded() -> (bool, String) {
    with_silent_panics(|| {
        let inputs = ["(é OR b)", "(aé OR b)", "(€ OR b)", "(a OR é)", "(a ORé)", "(\"é OR \" OR b)", "(é) OR (é)", "é OR é OR é"];
        for s in inputs {
            let t = s.to_string();
            if quiet(move || { let _ = DisjunctionParser::parse(&t); }).is_err() {
                return (true, format!("DisjunctionParser::parse({:?}) panicked (expected: Some(..) or None)", s));
            }
            let t = s.to_string();
            if quiet(move || { let _ = DisjunctionParser::contains_or(&t); }).is_err() {
                return (true, format!("DisjunctionParser::contains_or({:?}) panicked (expected: a bool)", s));
            }
        }
        (false, format!("{} recorded OR patterns with multi-byte characters: parse / contains_or returned", inputs.len()))
    })
}

fn c05_disjunction_parser_search() -> (bool, String) {
    with_silent_panics(|| {
        let max_len = crate::bound(5, 6);
        let (tried, bad) = enumerate(max_len, |s| {
            let a = format!("({})", s);
            let b = s.to_string();
            quiet(move || { let _ = DisjunctionParser::parse(&a); let _ = DisjunctionParser::contains_or(&b); }).is_ok()
        });
        match bad {
            Some(s) => (true, format!("DisjunctionParser::parse(\"({})\") / contains_or({:?}) panicked (expected: a value)", s, s)),
            None => (false, format!("{} strings of <= {} tokens over {:?}: DisjunctionParser::parse / contains_or returned", tried, max_len, TOKENS)),
        }
    })
}

fn c05_nested_and_aggregate_parser_search() -> (bool, String) {
    use rust_rule_engine::backward::aggregation::parse_aggregate_query;
    use rust_rule_engine::backward::nested::NestedQueryParser;
    with_silent_panics(|| {
        let max_len = crate::bound(4, 5);
        let (tried, bad) = enumerate(max_len, |s| {
            let a = s.to_string();
            quiet(move || {
                let _ = NestedQueryParser::parse(&a);
                let _ = NestedQueryParser::has_nested(&a);
                let _ = parse_aggregate_query(&a);
                let _ = parse_aggregate_query(&format!("count({}", a));
            })
            .is_ok()
        });
        match bad {
            Some(s) => (true, format!("nested::NestedQueryParser::parse / has_nested / aggregation::parse_aggregate_query panicked on {:?} (or on \"count(\" + it)", s)),
            None => (false, format!("{} strings of <= {} tokens: nested::NestedQueryParser::parse, has_nested, parse_aggregate_query returned", tried, max_len)),
        }
    })
}

fn c05_evaluate_expression_multibyte_search() -> (bool, String) {
    with_silent_panics(|| {
        let facts = Facts::new();
        let toks = ["a", "é", "€", " ", "+", "-", "*", "%", "(", ")", "\"", "'", "1", "0"];
        let n = toks.len() as u64;
        let max_len = crate::bound(4, 5) as u32;
        let mut tried = 0u64;
        for len in 1..=max_len {
            for c in 0..n.pow(len) {
                let mut s = String::new();
                let mut d = c;
                for _ in 0..len {
                    s.push_str(toks[(d % n) as usize]);
                    d /= n;
                }
                tried += 1;
                let f = &facts;
                let t = s.clone();
                if quiet(std::panic::AssertUnwindSafe(move || { let _ = evaluate_expression(&t, f); })).is_err() {
                    return (true, format!("expression::evaluate_expression({:?}) panicked (expected: Ok or Err)", s));
                }
            }
        }
        (false, format!("{} strings of <= {} tokens over {:?}: evaluate_expression returned", tried, max_len, toks))
    })
}

pub fn witnesses() -> Vec<crate::W> {
    vec![
        ("c05_disjunction_parser_recorded", c05_disjunction_parser_recorded),
        ("c05_disjunction_parser_search", c05_disjunction_parser_search),
        ("c05_nested_and_aggregate_parser_search", c05_nested_and_aggregate_parser_search),
        ("c05_evaluate_expression_multibyte_search", c05_evaluate_expression_multibyte_search),
    ]
}
