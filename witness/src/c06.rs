//! C06 witness searches: the incremental (RETE) engine fires a rule exactly for live facts that satisfy it; working
//! memory lists exactly the live facts; handles are never reused.
//!
//! REFERENCE (from the statement).  A fact "satisfies" a rule when the rule's condition, evaluated on that ONE fact's
//! own contents (a comparison that reads an absent field is false), is true.
//!   * every firing names a rule and a matched fact (the action is handed the matched handle) such that the fact is
//!     live and satisfies the rule at the moment of firing -- so never a retracted fact, never a blend of two facts;
//!   * a no-loop rule fires at most once between resets;
//!   * with actions that leave working memory unchanged, fire_all fires every no-loop rule that has not fired since
//!     the last reset and that some live fact satisfies -- REQUIRED here only for rules whose fact type was touched
//!     (insert / update / retract) since the previous fire_all, which is what "incremental" promises; for untouched
//!     types the firing is allowed, not required (scope restriction, stated so that the search stays inside what
//!     the statement covers);
//!   * after every operation every live fact is found by get / get_by_type / get_all_facts exactly once, a
//!     retracted one in none of them, and no handle value is handed out twice.
//! KNOWN FINDINGS kept out of the enumeration (see /verif/known_findings.json): a queued activation is not
//! re-evaluated when the fact is updated before fire_all (c06_stale_activation_fires_after_update) -- so `update`
//! is enumerated only with new contents that satisfy every rule the old contents satisfied, and field-modifying
//! actions only with a single no-loop rule; insert_from_stream is not used at all.
//!
//! Register in main.rs with `mod c06;` and `all.extend(c06::witnesses());`.
use rust_rule_engine::rete::grl_loader::GrlReteLoader;
use rust_rule_engine::rete::propagation::IncrementalEngine;
use rust_rule_engine::rete::working_memory::WorkingMemory;
use rust_rule_engine::rete::{ActionResult, AlphaNode, FactHandle, FactValue, ReteUlNode, TypedFacts, TypedReteUlRule};
use std::collections::{BTreeMap, BTreeSet};
use std::sync::{Arc, Mutex};

// ------------------------------------------------------------------------------------------------ conditions

#[derive(Clone, Debug, PartialEq)]
enum V {
    I(i64),
    F(f64),
    S(&'static str),
    B(bool),
}

impl V {
    fn num(&self) -> Option<f64> {
        match self {
            V::I(i) => Some(*i as f64),
            V::F(f) => Some(*f),
            _ => None,
        }
    }
    fn literal(&self) -> String {
        match self {
            V::I(i) => i.to_string(),
            V::F(f) => format!("{:?}", f),
            V::S(s) => s.to_string(),
            V::B(b) => b.to_string(),
        }
    }
    fn grl(&self) -> String {
        match self {
            V::S(s) => format!("\"{}\"", s),
            other => other.literal(),
        }
    }
    fn fact_value(&self) -> FactValue {
        match self {
            V::I(i) => FactValue::Integer(*i),
            V::F(f) => FactValue::Float(*f),
            V::S(s) => FactValue::String(s.to_string()),
            V::B(b) => FactValue::Boolean(*b),
        }
    }
}

#[derive(Clone, Debug)]
enum C {
    Cmp(&'static str, &'static str, V),
    And(Box<C>, Box<C>),
    Or(Box<C>, Box<C>),
    Not(Box<C>),
}

type Contents = BTreeMap<&'static str, V>;

impl C {
    /// the reference evaluation on ONE fact's contents
    fn holds(&self, f: &Contents) -> bool {
        match self {
            C::Cmp(field, op, lit) => match f.get(field) {
                None => false,
                Some(v) => match (v.num(), lit.num()) {
                    (Some(a), Some(b)) => match *op {
                        ">" => a > b,
                        ">=" => a >= b,
                        "<" => a < b,
                        "<=" => a <= b,
                        "==" => a == b,
                        "!=" => a != b,
                        _ => unreachable!(),
                    },
                    _ => match *op {
                        "==" => v == lit,
                        "!=" => v != lit,
                        _ => false,
                    },
                },
            },
            C::And(a, b) => a.holds(f) && b.holds(f),
            C::Or(a, b) => a.holds(f) || b.holds(f),
            C::Not(a) => !a.holds(f),
        }
    }
    fn node(&self, ty: &str) -> ReteUlNode {
        match self {
            C::Cmp(field, op, lit) => ReteUlNode::UlAlpha(AlphaNode { field: format!("{}.{}", ty, field), operator: op.to_string(), value: lit.literal() }),
            C::And(a, b) => ReteUlNode::UlAnd(Box::new(a.node(ty)), Box::new(b.node(ty))),
            C::Or(a, b) => ReteUlNode::UlOr(Box::new(a.node(ty)), Box::new(b.node(ty))),
            C::Not(a) => ReteUlNode::UlNot(Box::new(a.node(ty))),
        }
    }
    fn grl(&self, ty: &str) -> String {
        match self {
            C::Cmp(field, op, lit) => format!("{}.{} {} {}", ty, field, op, lit.grl()),
            C::And(a, b) => format!("({} && {})", a.grl(ty), b.grl(ty)),
            C::Or(a, b) => format!("({} || {})", a.grl(ty), b.grl(ty)),
            C::Not(a) => format!("!({})", a.grl(ty)),
        }
    }
}

fn cmp(f: &'static str, op: &'static str, v: V) -> C {
    C::Cmp(f, op, v)
}
fn and(a: C, b: C) -> C {
    C::And(Box::new(a), Box::new(b))
}
fn or(a: C, b: C) -> C {
    C::Or(Box::new(a), Box::new(b))
}

#[derive(Clone, Debug)]
struct RuleSpec {
    name: &'static str,
    ty: &'static str,
    cond: C,
    priority: i32,
    no_loop: bool,
}

#[derive(Clone, Copy, Debug, PartialEq)]
enum Act {
    /// leaves working memory unchanged (records the matched handle)
    Nothing,
    /// retracts the matched fact
    RetractMatched,
    /// sets field x of the matched fact's type to 0 (single no-loop rule only, see module comment)
    ZeroX,
}

#[derive(Clone, Debug)]
struct Template {
    ty: &'static str,
    fields: Vec<(&'static str, V)>,
}

fn tpl(ty: &'static str, fields: &[(&'static str, V)]) -> Template {
    Template { ty, fields: fields.to_vec() }
}

impl Template {
    fn contents(&self) -> Contents {
        self.fields.iter().cloned().collect()
    }
    fn typed(&self) -> TypedFacts {
        let mut t = TypedFacts::new();
        for (k, v) in &self.fields {
            t.set(*k, v.fact_value());
        }
        t
    }
    fn show(&self) -> String {
        format!("{}{{{}}}", self.ty, self.fields.iter().map(|(k, v)| format!("{}:{}", k, v.grl())).collect::<Vec<_>>().join(","))
    }
}

// ------------------------------------------------------------------------------------------------ histories

#[derive(Clone, Debug)]
enum Op {
    Insert(usize),        // template index
    Update(usize, usize), // fact index, template index (same type)
    Retract(usize),       // fact index
    FireAll,
    Reset,
}

struct Setup {
    rules: Vec<RuleSpec>,
    templates: Vec<Template>,
    action: Act,
    /// load the rules through the GRL loader (actions: Log) instead of the TypedReteUlRule constructor
    via_grl: bool,
    max_facts: usize,
    with_update: bool,
}

impl Setup {
    fn describe(&self) -> String {
        format!(
            "rules [{}]{}",
            self.rules
                .iter()
                .map(|r| format!("{} (salience {}{}): {}", r.name, r.priority, if r.no_loop { ", no-loop" } else { "" }, r.cond.grl(r.ty)))
                .collect::<Vec<_>>()
                .join("; "),
            match (self.via_grl, self.action) {
                (true, _) => " loaded from GRL, actions Log(..)",
                (false, Act::Nothing) => ", actions leave working memory unchanged",
                (false, Act::RetractMatched) => ", action retracts the matched fact",
                (false, Act::ZeroX) => ", action sets <Type>.x = 0",
            }
        )
    }
    fn grl_text(&self) -> String {
        self.rules
            .iter()
            .map(|r| format!("rule \"{}\" salience {} {} {{ when {} then Log(\"{}\"); }}", r.name, r.priority, if r.no_loop { "no-loop" } else { "" }, r.cond.grl(r.ty), r.name))
            .collect::<Vec<_>>()
            .join("\n")
    }
    fn show_ops(&self, ops: &[Op]) -> String {
        let mut n = 0;
        ops.iter()
            .map(|o| match o {
                Op::Insert(t) => {
                    n += 1;
                    format!("h{} = insert {}", n, self.templates[*t].show())
                }
                Op::Update(i, t) => format!("update(h{}, {})", i + 1, self.templates[*t].show()),
                Op::Retract(i) => format!("retract(h{})", i + 1),
                Op::FireAll => "fire_all".to_string(),
                Op::Reset => "reset".to_string(),
            })
            .collect::<Vec<_>>()
            .join("; ")
    }
}

#[derive(Clone)]
struct MFact {
    ty: &'static str,
    contents: Contents,
    live: bool,
}

#[derive(Clone, Default)]
struct Model {
    facts: Vec<MFact>,
    fired_since_reset: BTreeSet<&'static str>,
    touched: BTreeSet<&'static str>,
    fired_once: bool,
}

impl Model {
    fn satisfied(&self, s: &Setup, f: &MFact) -> BTreeSet<&'static str> {
        s.rules.iter().filter(|r| r.ty == f.ty && r.cond.holds(&f.contents)).map(|r| r.name).collect()
    }
    fn ops(&self, s: &Setup) -> Vec<Op> {
        let mut v = Vec::new();
        if self.facts.len() < s.max_facts {
            for t in 0..s.templates.len() {
                v.push(Op::Insert(t));
            }
        }
        for (i, f) in self.facts.iter().enumerate() {
            if f.live {
                v.push(Op::Retract(i));
                if s.with_update {
                    let old = self.satisfied(s, f);
                    for (t, tp) in s.templates.iter().enumerate() {
                        if tp.ty != f.ty || tp.contents() == f.contents {
                            continue;
                        }
                        let new = self.satisfied(s, &MFact { ty: f.ty, contents: tp.contents(), live: true });
                        if old.is_subset(&new) {
                            v.push(Op::Update(i, t)); // never turns a satisfied rule unsatisfied (known finding otherwise)
                        }
                    }
                }
            }
        }
        v.push(Op::FireAll);
        if self.fired_once {
            v.push(Op::Reset);
        }
        v
    }
    /// model step for everything but FireAll
    fn apply(&mut self, s: &Setup, op: &Op) {
        match op {
            Op::Insert(t) => {
                let tp = &s.templates[*t];
                self.facts.push(MFact { ty: tp.ty, contents: tp.contents(), live: true });
                self.touched.insert(tp.ty);
            }
            Op::Update(i, t) => {
                self.facts[*i].contents = s.templates[*t].contents();
                self.touched.insert(self.facts[*i].ty);
            }
            Op::Retract(i) => {
                self.facts[*i].live = false;
                self.touched.insert(self.facts[*i].ty);
            }
            Op::FireAll => {
                self.fired_once = true;
            }
            Op::Reset => self.fired_since_reset.clear(),
        }
    }
}

type Log = Arc<Mutex<Vec<(String, Option<u64>, Option<FactValue>)>>>;

fn build_engine(s: &Setup, log: &Log) -> Result<IncrementalEngine, String> {
    let mut e = IncrementalEngine::new();
    if s.via_grl {
        let n = GrlReteLoader::load_from_string(&s.grl_text(), &mut e).map_err(|err| format!("GRL did not load: {:?}\n{}", err, s.grl_text()))?;
        if n != s.rules.len() {
            return Err(format!("GRL loaded {} of {} rules", n, s.rules.len()));
        }
        return Ok(e);
    }
    for r in &s.rules {
        let log = log.clone();
        let name = r.name.to_string();
        let ty = r.ty.to_string();
        let act = s.action;
        e.add_rule(
            TypedReteUlRule {
                name: r.name.to_string(),
                node: r.cond.node(r.ty),
                priority: r.priority,
                no_loop: r.no_loop,
                action: Arc::new(move |facts, results| {
                    let h = facts.get_fact_handle(&ty);
                    // what the engine shows of the matched fact's field x at the moment of firing
                    let x_seen = h.and_then(|h| facts.get(&format!("{}.{}.x", ty, h.id())).cloned());
                    log.lock().unwrap().push((name.clone(), h.map(|h| h.id()), x_seen));
                    match act {
                        Act::Nothing => {}
                        Act::RetractMatched => {
                            if let Some(h) = h {
                                results.add(ActionResult::Retract(h));
                            }
                        }
                        Act::ZeroX => facts.set(format!("{}.x", ty), 0i64),
                    }
                }),
            },
            vec![r.ty.to_string()],
        );
    }
    Ok(e)
}

/// listing check after an operation: every live fact by handle, by type (and under no other type), in the full listing;
/// retracted ones nowhere; handle values distinct
fn check_listing(wm: &WorkingMemory, m: &Model, hs: &[FactHandle], types: &[&'static str]) -> Option<String> {
    let distinct: BTreeSet<u64> = hs.iter().map(|h| h.id()).collect();
    if distinct.len() != hs.len() {
        return Some(format!("a handle value was handed out twice: {:?}", hs.iter().map(|h| h.id()).collect::<Vec<_>>()));
    }
    for (i, f) in m.facts.iter().enumerate() {
        let by_handle = wm.get(&hs[i]);
        let in_all = wm.get_all_facts().iter().filter(|x| x.handle == hs[i]).count();
        let in_handles = wm.get_all_handles().iter().filter(|x| **x == hs[i]).count();
        for ty in types {
            let n = wm.get_by_type(ty).iter().filter(|x| x.handle == hs[i]).count();
            let exp = (f.live && *ty == f.ty) as usize;
            if n != exp {
                return Some(format!("h{} ({}, {}): get_by_type({}) lists it {} time(s), expected {}", i + 1, f.ty, if f.live { "live" } else { "retracted" }, ty, n, exp));
            }
        }
        if by_handle.is_some() != f.live || in_all != f.live as usize || in_handles != f.live as usize {
            return Some(format!(
                "h{} ({}): get = {}, get_all_facts lists it {} time(s), get_all_handles {} time(s)",
                i + 1,
                if f.live { "live" } else { "retracted" },
                by_handle.is_some(),
                in_all,
                in_handles
            ));
        }
        if let Some(wf) = by_handle {
            if wf.fact_type != f.ty {
                return Some(format!("h{}: get shows type {}, inserted as {}", i + 1, wf.fact_type, f.ty));
            }
        }
    }
    let live = m.facts.iter().filter(|f| f.live).count();
    if wm.get_all_facts().len() != live {
        return Some(format!("get_all_facts lists {} facts, {} are live", wm.get_all_facts().len(), live));
    }
    None
}

/// contents of a live fact as working memory shows them, compared with the model (only where the action leaves memory alone)
fn check_contents(wm: &WorkingMemory, m: &Model, hs: &[FactHandle]) -> Option<String> {
    for (i, f) in m.facts.iter().enumerate() {
        if !f.live {
            continue;
        }
        if let Some(wf) = wm.get(&hs[i]) {
            let got: BTreeMap<String, FactValue> = wf.data.get_all().iter().map(|(k, v)| (k.clone(), v.clone())).collect();
            let exp: BTreeMap<String, FactValue> = f.contents.iter().map(|(k, v)| (k.to_string(), v.fact_value())).collect();
            if got != exp {
                return Some(format!("h{}: working memory shows {:?}, expected {:?}", i + 1, got, exp));
            }
        }
    }
    None
}

/// replay a history; Some(description) at the first departure from the reference.
/// GRL parsing is slow, so a GRL-loaded engine may be handed in for reuse: it is emptied with reset_with_deffacts()
/// (no deffacts are registered: working memory and agenda start afresh, the rules stay); a departure seen on a
/// recycled engine is only reported if it also shows on a freshly loaded one.
fn replay(s: &Setup, ops: &[Op], recycled: Option<&mut IncrementalEngine>) -> Option<String> {
    let log: Log = Arc::new(Mutex::new(Vec::new()));
    let mut fresh;
    let e: &mut IncrementalEngine = match recycled {
        Some(e) => {
            e.reset_with_deffacts();
            e
        }
        None => {
            fresh = match build_engine(s, &log) {
                Ok(e) => e,
                Err(why) => return Some(why),
            };
            &mut fresh
        }
    };
    let mut m = Model::default();
    let mut hs: Vec<FactHandle> = Vec::new();
    let types: Vec<&'static str> = s.templates.iter().map(|t| t.ty).collect::<BTreeSet<_>>().into_iter().collect();
    let fail = |step: usize, why: String| Some(format!("{}; history: {} -- at step {}: {}", s.describe(), s.show_ops(&ops[..=step]), step + 1, why));
    for (step, op) in ops.iter().enumerate() {
        match op {
            Op::Insert(t) => {
                let tp = &s.templates[*t];
                hs.push(e.insert(tp.ty.to_string(), tp.typed()));
                m.apply(s, op);
            }
            Op::Update(i, _) | Op::Retract(i) if !m.facts[*i].live => return None, // the action retracted it already: not a history of the scope
            Op::Update(i, t) => {
                if let Err(err) = e.update(hs[*i], s.templates[*t].typed()) {
                    return fail(step, format!("update of a live fact failed: {}", err));
                }
                m.apply(s, op);
            }
            Op::Retract(i) => {
                if let Err(err) = e.retract(hs[*i]) {
                    return fail(step, format!("retract of a live fact failed: {}", err));
                }
                m.apply(s, op);
            }
            Op::Reset => {
                e.reset();
                m.apply(s, op);
            }
            Op::FireAll => {
                log.lock().unwrap().clear();
                let fired = e.fire_all();
                let seen = log.lock().unwrap().clone();
                if !s.via_grl {
                    let names: Vec<String> = seen.iter().map(|x| x.0.clone()).collect();
                    if names != fired {
                        return fail(step, format!("fire_all returned {:?} but the actions that ran were {:?}", fired, names));
                    }
                    // sentence 1: each firing on a live fact that satisfies the rule at that moment
                    for (name, h, x_seen) in &seen {
                        let r = s.rules.iter().find(|r| r.name == name).unwrap();
                        let idx = match h.and_then(|h| hs.iter().position(|x| x.id() == h)) {
                            Some(i) => i,
                            None if h.is_none() => return fail(step, format!("{} fired although its action was handed no matched fact of type {} (no live fact is the reason for this firing)", name, r.ty)),
                            None => return fail(step, format!("{} fired with matched handle {:?}, which no insert returned", name, h)),
                        };
                        let f = &m.facts[idx];
                        if !f.live {
                            return fail(step, format!("{} fired for h{}, which is retracted", name, idx + 1));
                        }
                        if f.ty != r.ty {
                            return fail(step, format!("{} (on {}) fired for h{} of type {}", name, r.ty, idx + 1, f.ty));
                        }
                        if s.action == Act::ZeroX {
                            // contents at the moment of firing = what the engine showed the action
                            let mut c = f.contents.clone();
                            match x_seen {
                                Some(FactValue::Integer(i)) => {
                                    c.insert("x", V::I(*i));
                                }
                                None => {
                                    c.remove("x");
                                }
                                other => return fail(step, format!("{} fired for h{} whose field x showed as {:?}", name, idx + 1, other)),
                            }
                            if !r.cond.holds(&c) {
                                return fail(step, format!("{} fired for h{} whose contents at that moment ({:?}) do not satisfy it", name, idx + 1, c));
                            }
                        } else if !r.cond.holds(&f.contents) {
                            return fail(step, format!("{} fired for h{} = {:?}, which does not satisfy it (no single live fact's contents were the reason)", name, idx + 1, f.contents));
                        }
                        if s.action == Act::RetractMatched {
                            m.facts[idx].live = false;
                            m.touched.insert(m.facts[idx].ty);
                        }
                    }
                }
                // no-loop: at most once between resets
                for r in s.rules.iter().filter(|r| r.no_loop) {
                    let n = fired.iter().filter(|x| x.as_str() == r.name).count();
                    if n > 1 || (n == 1 && m.fired_since_reset.contains(r.name)) {
                        return fail(step, format!("no-loop rule {} fired {} time(s) in this fire_all{} (fire_all = {:?})", r.name, n, if m.fired_since_reset.contains(r.name) { " after having fired since the last reset" } else { "" }, fired));
                    }
                }
                for name in &fired {
                    if !s.rules.iter().any(|r| r.name == name) {
                        return fail(step, format!("fire_all reported the unknown rule {}", name));
                    }
                }
                if s.action == Act::Nothing {
                    // sentence 2: fired = the satisfied no-loop rules (each once), no other rule
                    for r in &s.rules {
                        let sat = m.facts.iter().any(|f| f.live && f.ty == r.ty && r.cond.holds(&f.contents));
                        let n = fired.iter().filter(|x| x.as_str() == r.name).count();
                        if !sat && n > 0 {
                            return fail(step, format!("{} fired although no live fact satisfies it (fire_all = {:?})", r.name, fired));
                        }
                        if sat && r.no_loop && n == 0 && !m.fired_since_reset.contains(r.name) && m.touched.contains(r.ty) {
                            return fail(step, format!("{} did not fire although a live fact satisfies it, it has not fired since the last reset and facts of type {} changed since the previous fire_all (fire_all = {:?})", r.name, r.ty, fired));
                        }
                    }
                }
                for name in &fired {
                    let r = s.rules.iter().find(|r| r.name == name).unwrap();
                    m.fired_since_reset.insert(r.name);
                }
                m.touched.clear();
                m.apply(s, op);
                if s.action == Act::ZeroX {
                    // the action rewrote field x; take the new contents from working memory (not part of the reference)
                    for (i, f) in m.facts.iter_mut().enumerate() {
                        if let Some(wf) = e.working_memory().get(&hs[i]) {
                            match wf.data.get("x") {
                                Some(FactValue::Integer(v)) => {
                                    f.contents.insert("x", V::I(*v));
                                }
                                _ => {
                                    f.contents.remove("x");
                                }
                            }
                        }
                    }
                }
            }
        }
        if step + 1 == ops.len() || matches!(op, Op::FireAll) {
            if let Some(why) = check_listing(e.working_memory(), &m, &hs, &types) {
                return fail(step, why);
            }
            if s.action != Act::ZeroX {
                if let Some(why) = check_contents(e.working_memory(), &m, &hs) {
                    return fail(step, why);
                }
            }
        }
    }
    None
}

fn enumerate(s: &Setup, hist: &mut Vec<Op>, m: &Model, len: usize, tried: &mut u64, recycled: &mut Option<IncrementalEngine>) -> Option<String> {
    if hist.len() == len {
        *tried += 1;
        return match recycled {
            Some(e) => match replay(s, hist, Some(e)) {
                Some(_) => replay(s, hist, None), // confirm on a freshly loaded engine
                None => None,
            },
            None => replay(s, hist, None),
        };
    }
    for op in m.ops(s) {
        let mut m2 = m.clone();
        if let Op::FireAll = op {
            // the model cannot know which rules the real fire_all will fire without running it; for the purpose of
            // ENUMERATION only (which operations are offered next) assume every satisfied rule fired
            m2.fired_once = true;
        } else {
            m2.apply(s, &op);
        }
        hist.push(op);
        let r = enumerate(s, hist, &m2, len, tried, recycled);
        hist.pop();
        if r.is_some() {
            return r;
        }
    }
    None
}

fn search(s: &Setup, max_ops: usize) -> (Option<String>, u64) {
    let mut tried = 0u64;
    let mut recycled = if s.via_grl { build_engine(s, &Arc::new(Mutex::new(Vec::new()))).ok() } else { None };
    for len in 1..=max_ops {
        let mut h = Vec::new();
        if let Some(v) = enumerate(s, &mut h, &Model::default(), len, &mut tried, &mut recycled) {
            return (Some(v), tried);
        }
    }
    (None, tried)
}

// ------------------------------------------------------------------------------------------------ rule sets

fn a_templates() -> Vec<Template> {
    vec![
        tpl("A", &[("x", V::I(20))]),
        tpl("A", &[("x", V::I(10))]), // boundary of x > 10 / x <= 10
        tpl("A", &[("y", V::S("k"))]), // lacks the field x
        tpl("A", &[("x", V::I(20)), ("y", V::S("k"))]),
    ]
}

fn ab_templates() -> Vec<Template> {
    let mut t = a_templates();
    t.push(tpl("B", &[("x", V::I(20))]));
    t.push(tpl("B", &[("z", V::B(true))]));
    t
}

fn rs_conjunction() -> Vec<RuleSpec> {
    vec![
        RuleSpec { name: "Both", ty: "A", cond: and(cmp("x", ">", V::I(10)), cmp("y", "==", V::S("k"))), priority: 5, no_loop: true },
        RuleSpec { name: "BigB", ty: "B", cond: cmp("x", ">=", V::I(20)), priority: 0, no_loop: true },
    ]
}

fn rs_two_on_one_type() -> Vec<RuleSpec> {
    vec![
        RuleSpec { name: "Either", ty: "A", cond: or(cmp("x", ">", V::I(10)), cmp("y", "==", V::S("k"))), priority: 0, no_loop: true },
        RuleSpec { name: "Small", ty: "A", cond: cmp("x", "<=", V::I(10)), priority: 3, no_loop: true },
    ]
}

/// a negation (true of a fact that lacks the field) next to its positive counterpart; facts of ONE type only, so that
/// "the negated comparison is false of a fact of another type" never has to be decided
fn rs_negation() -> Vec<RuleSpec> {
    vec![
        RuleSpec { name: "NotBig", ty: "A", cond: C::Not(Box::new(cmp("x", ">", V::I(10)))), priority: 0, no_loop: true },
        RuleSpec { name: "Big", ty: "A", cond: cmp("x", ">", V::I(10)), priority: 1, no_loop: true },
    ]
}

/// direct WorkingMemory histories: insert (3 types) / update / retract over up to 6 facts, listing checked after every step
fn c06_working_memory_listing_search() -> (bool, String) {
    #[derive(Clone, Debug)]
    enum W {
        Ins(usize),
        Upd(usize),
        Ret(usize),
    }
    let types = ["A", "B", "C"];
    let max_len = crate::bound(6, 8);
    let mut tried = 0u64;
    let mut stack: Vec<Vec<W>> = vec![vec![]];
    while let Some(h) = stack.pop() {
        // replay
        let mut wm = WorkingMemory::new();
        let mut m = Model::default();
        let mut hs = Vec::new();
        for (k, op) in h.iter().enumerate() {
            match op {
                W::Ins(t) => {
                    let mut d = TypedFacts::new();
                    d.set("n", k as i64);
                    hs.push(wm.insert(types[*t].to_string(), d));
                    m.facts.push(MFact { ty: types[*t], contents: [("n", V::I(k as i64))].into_iter().collect(), live: true });
                }
                W::Upd(i) => {
                    let mut d = TypedFacts::new();
                    d.set("n", 100 + k as i64);
                    if wm.update(hs[*i], d).is_err() {
                        return (true, format!("WorkingMemory {:?}: update of the live h{} failed", h, i + 1));
                    }
                    m.facts[*i].contents.insert("n", V::I(100 + k as i64));
                }
                W::Ret(i) => {
                    if wm.retract(hs[*i]).is_err() {
                        return (true, format!("WorkingMemory {:?}: retract of the live h{} failed", h, i + 1));
                    }
                    m.facts[*i].live = false;
                }
            }
        }
        if !h.is_empty() {
            tried += 1;
            if let Some(why) = check_listing(&wm, &m, &hs, &types).or_else(|| check_contents(&wm, &m, &hs)) {
                return (true, format!("WorkingMemory history {:?} (Ins(t) = insert type #t, Upd/Ret(i) = fact #i): {}", h, why));
            }
            // a retracted fact accepts neither update nor a second retract
            for (i, f) in m.facts.iter().enumerate() {
                if !f.live && (wm.update(hs[i], TypedFacts::new()).is_ok() || wm.get(&hs[i]).is_some()) {
                    return (true, format!("WorkingMemory history {:?}: the retracted h{} was updated / is found again", h, i + 1));
                }
            }
        }
        if h.len() < max_len {
            let n = m.facts.len();
            // symmetry: a new type index may exceed the largest used so far by at most one
            let used = h.iter().filter_map(|o| if let W::Ins(t) = o { Some(*t + 1) } else { None }).max().unwrap_or(0);
            for t in 0..types.len().min(used + 1) {
                let mut g = h.clone();
                g.push(W::Ins(t));
                stack.push(g);
            }
            for i in 0..n {
                if m.facts[i].live {
                    let mut g = h.clone();
                    g.push(W::Upd(i));
                    stack.push(g);
                    let mut g = h.clone();
                    g.push(W::Ret(i));
                    stack.push(g);
                }
            }
        }
    }
    (false, format!("{} WorkingMemory histories of <= {} insert/update/retract over <= {} facts of 3 types: every live fact listed once by handle, type and in full, retracted ones nowhere, handles distinct", tried, max_len, max_len))
}

/// constructor-built rules with recording actions that leave working memory unchanged: a conjunction on A that only a
/// blend of two facts satisfies, a rule on B, facts lacking a field, two types
fn c06_fire_all_history_search() -> (bool, String) {
    let s = Setup { rules: rs_conjunction(), templates: ab_templates(), action: Act::Nothing, via_grl: false, max_facts: 4, with_update: false };
    let max_ops = crate::bound(5, 6);
    match search(&s, max_ops) {
        (Some(v), _) => (true, v),
        (None, n) => (false, format!("{} histories of <= {} insert/retract/fire_all/reset over <= 4 facts of 2 types (facts lacking a field, conjunction satisfied only by a blend of two facts), firings and listings as the reference", n, max_ops)),
    }
}

/// two rules on one type (a disjunction and its complement, different saliences), and histories with update
fn c06_fire_all_two_rules_and_update_search() -> (bool, String) {
    let mut total = 0u64;
    let setups = vec![
        (Setup { rules: rs_two_on_one_type(), templates: a_templates(), action: Act::Nothing, via_grl: false, max_facts: 4, with_update: false }, 5),
        // with updates (only those that never turn a satisfied rule unsatisfied), three facts
        (Setup { rules: rs_conjunction(), templates: a_templates(), action: Act::Nothing, via_grl: false, max_facts: 3, with_update: true }, 5),
        (Setup { rules: rs_two_on_one_type(), templates: a_templates(), action: Act::Nothing, via_grl: false, max_facts: 2, with_update: true }, 5),
        (Setup { rules: rs_negation(), templates: a_templates(), action: Act::Nothing, via_grl: false, max_facts: 3, with_update: false }, 5),
    ];
    let deeper = crate::bound(0, 1); // thorough tier: one more operation per history
    for (s, depth) in &setups {
        let (v, n) = search(s, *depth + deeper);
        total += n;
        if let Some(v) = v {
            return (true, v);
        }
    }
    (false, format!("{} histories of <= {} insert/update/retract/fire_all/reset over <= 4 facts (two rules on one type; a negation; updates that keep every satisfied rule satisfied), firings and listings as the reference", total, 5 + deeper))
}

/// the same rule sets written as GRL text and loaded through GrlReteLoader (only the returned rule names are observable)
fn c06_grl_loaded_history_search() -> (bool, String) {
    let mut total = 0u64;
    let person = vec![
        tpl("Person", &[("age", V::I(18)), ("name", V::S("bob"))]), // boundary of age >= 18: Adult only
        tpl("Person", &[("age", V::I(30)), ("name", V::S("x")), ("money", V::F(200.5))]), // Rich through money
        tpl("Person", &[("age", V::I(30)), ("name", V::S("x")), ("vip", V::B(true)), ("money", V::F(100.5))]), // Rich through vip, money on the boundary
        tpl("Person", &[("name", V::S("bob")), ("vip", V::B(true))]), // lacks age: neither (a blend with another Person would be both)
        tpl("Order", &[("total", V::I(2000))]),
        tpl("Order", &[("total", V::I(1000))]), // boundary of total > 1000
    ];
    let rules = vec![
        RuleSpec { name: "Adult", ty: "Person", cond: and(cmp("age", ">=", V::I(18)), cmp("name", "!=", V::S("x"))), priority: 10, no_loop: true },
        RuleSpec { name: "Rich", ty: "Person", cond: and(cmp("age", ">=", V::I(18)), or(cmp("money", ">", V::F(100.5)), cmp("vip", "==", V::B(true)))), priority: 0, no_loop: true },
        RuleSpec { name: "BigOrder", ty: "Order", cond: cmp("total", ">", V::I(1000)), priority: 5, no_loop: true },
    ];
    let setups = vec![
        (Setup { rules, templates: person, action: Act::Nothing, via_grl: true, max_facts: 3, with_update: false }, 5),
        (Setup { rules: rs_conjunction(), templates: ab_templates(), action: Act::Nothing, via_grl: true, max_facts: 3, with_update: false }, 4),
        (Setup { rules: rs_negation(), templates: a_templates(), action: Act::Nothing, via_grl: true, max_facts: 3, with_update: false }, 4),
    ];
    let deeper = crate::bound(0, 1); // thorough tier: one more operation per history
    for (s, depth) in &setups {
        let (v, n) = search(s, *depth + deeper);
        total += n;
        if let Some(v) = v {
            return (true, v);
        }
    }
    (false, format!("{} histories over GRL-loaded rule sets (3 rules on Person/Order with &&, ||, >=, !=, float and boolean literals; the conjunction set; the negation set: histories of <= {} / {} / {} operations), fired rule names and listings as the reference", total, 5 + deeper, 4 + deeper, 4 + deeper))
}

/// actions that retract or modify the matched fact (sentence 1 and the listing only)
fn c06_retracting_and_modifying_action_search() -> (bool, String) {
    let mut total = 0u64;
    let big = |no_loop| vec![RuleSpec { name: "Big", ty: "A", cond: cmp("x", ">", V::I(10)), priority: 0, no_loop }];
    let setups = vec![
        (Setup { rules: big(false), templates: ab_templates(), action: Act::RetractMatched, via_grl: false, max_facts: 4, with_update: false }, 5),
        (Setup { rules: big(true), templates: a_templates(), action: Act::RetractMatched, via_grl: false, max_facts: 4, with_update: false }, 5),
        (Setup { rules: big(true), templates: a_templates(), action: Act::ZeroX, via_grl: false, max_facts: 3, with_update: false }, 5),
    ];
    let deeper = crate::bound(0, 1); // thorough tier: one more operation per history
    for (s, depth) in &setups {
        let (v, n) = search(s, *depth + deeper);
        total += n;
        if let Some(v) = v {
            return (true, v);
        }
    }
    (false, format!("{} histories of <= {} operations with an action that retracts the matched fact (no-loop and not) or rewrites its field (one no-loop rule): every firing on a live fact that satisfies the rule at that moment, listings as the reference", total, 5 + deeper))
}

pub fn witnesses() -> Vec<crate::W> {
    vec![
        ("c06_working_memory_listing_search", c06_working_memory_listing_search as fn() -> (bool, String)),
        ("c06_fire_all_history_search", c06_fire_all_history_search as fn() -> (bool, String)),
        ("c06_fire_all_two_rules_and_update_search", c06_fire_all_two_rules_and_update_search as fn() -> (bool, String)),
        ("c06_grl_loaded_history_search", c06_grl_loaded_history_search as fn() -> (bool, String)),
        ("c06_retracting_and_modifying_action_search", c06_retracting_and_modifying_action_search as fn() -> (bool, String)),
    ]
}
