//! C11: a FAILED aggregate query must not change the configuration later queries run with.
//! BackwardEngine::query_aggregate sets config.max_solutions = usize::MAX around the inner query and restores it afterwards — but the
//! inner `self.query(..)?` returns early on Err, skipping the restore.
use rust_rule_engine::backward::{BackwardConfig, BackwardEngine, SearchStrategy};
use rust_rule_engine::{ActionType, Condition, ConditionGroup, Facts, KnowledgeBase, Operator, Rule, Value};

fn kb() -> KnowledgeBase {
    let kb = KnowledgeBase::new("c11b");
    kb.add_rule(Rule::new(
        "Adult".into(),
        ConditionGroup::single(Condition::new("User.Age".into(), Operator::GreaterThan, Value::Number(18.0))),
        vec![ActionType::Set { field: "User.IsAdult".into(), value: Value::Boolean(true) }],
    ))
    .unwrap();
    kb.add_rule(Rule::new(
        "AdultByPoints".into(),
        ConditionGroup::single(Condition::new("User.Points".into(), Operator::GreaterThan, Value::Number(0.0))),
        vec![ActionType::Set { field: "User.IsAdult".into(), value: Value::Boolean(true) }],
    ))
    .unwrap();
    kb
}

/// history: one aggregate query whose inner pattern does not parse (returns Err), then look at the configuration the next query
/// would run with, and run it: compared with a fresh engine built with the same configuration
fn c11_failed_aggregate_keeps_configuration() -> (bool, String) {
    let cfg = BackwardConfig { max_depth: 10, strategy: SearchStrategy::DepthFirst, enable_memoization: false, max_solutions: 1 };
    let mut bad = Vec::new();
    for q in ["count(?x) WHERE User.Age >", "count(?x) WHERE (", "count(?x) WHERE ", "sum(?x) WHERE User.Age > > 1"] {
        let mut e = BackwardEngine::with_config(kb(), cfg.clone());
        let mut f = Facts::new();
        f.set("User.Age", Value::Number(30.0));
        let r = e.query_aggregate(q, &mut f);
        let after = e.config().max_solutions;
        if r.is_err() && after != cfg.max_solutions {
            // the next ordinary query, compared with a fresh engine of the same configuration on equal facts
            let mut f1 = Facts::new();
            f1.set("User.Age", Value::Number(30.0));
            f1.set("User.Points", Value::Number(5.0));
            let mut f2 = Facts::new();
            f2.set("User.Age", Value::Number(30.0));
            f2.set("User.Points", Value::Number(5.0));
            let a = e.query("User.IsAdult == true", &mut f1);
            let mut fresh = BackwardEngine::with_config(kb(), cfg.clone());
            let b = fresh.query("User.IsAdult == true", &mut f2);
            let d = match (&a, &b) {
                (Ok(x), Ok(y)) => format!("then query(\"User.IsAdult == true\"): provable {} / {} solutions, goals explored {}; fresh engine: provable {} / {} solutions, goals explored {}", x.provable, x.solutions.len(), x.stats.goals_explored, y.provable, y.solutions.len(), y.stats.goals_explored),
                _ => "then query: error".to_string(),
            };
            bad.push(format!("query_aggregate({:?}) returned Err and left config.max_solutions = {} (was {}); {}", q, after, cfg.max_solutions, d));
        }
    }
    if bad.is_empty() {
        (false, "4 failing aggregate queries leave config.max_solutions as configured".into())
    } else {
        (true, format!("engine with max_solutions = 1: {} — every later query on this engine runs with another configuration than a fresh engine", bad.join("; ")))
    }
}

pub fn witnesses() -> Vec<crate::W> {
    vec![("c11_failed_aggregate_keeps_configuration", c11_failed_aggregate_keeps_configuration)]
}
