//! C16 — alpha memory index / conclusion index: concrete failing inputs (floats) and bounded searches on the float-free part.
//! Register in main.rs with `mod alpha_index;` and `all.extend(alpha_index::witnesses());`.
use rust_rule_engine::backward::ConclusionIndex;
use rust_rule_engine::engine::rule::{Condition, ConditionGroup, Rule};
use rust_rule_engine::rete::alpha_memory_index::AlphaMemoryIndex;
use rust_rule_engine::rete::facts::{FactValue, TypedFacts};
use rust_rule_engine::types::{ActionType, Operator, Value};
use std::collections::HashSet;

fn fact(v: FactValue) -> TypedFacts {
    let mut f = TypedFacts::new();
    f.set("x", v);
    f
}

/// the linear path of the statement, computed outside the crate
fn reference(facts: &[TypedFacts], field: &str, value: &FactValue) -> Vec<usize> {
    (0..facts.len()).filter(|&i| facts[i].get(field) == Some(value)).collect()
}

fn positions(mem: &AlphaMemoryIndex, got: &[&TypedFacts]) -> Vec<usize> {
    // identify returned facts by address inside get_all()
    let all = mem.get_all();
    got.iter().map(|g| all.iter().position(|a| std::ptr::eq(a, *g)).unwrap_or(usize::MAX)).collect()
}

/// known finding: NaN renders alike ("Float(NaN)") but NaN != NaN
fn c16_alpha_nan() -> (bool, String) {
    let mut lin = AlphaMemoryIndex::new();
    lin.insert(fact(FactValue::Float(f64::NAN)));
    let mut idx = AlphaMemoryIndex::new();
    idx.create_index("x".to_string());
    idx.insert(fact(FactValue::Float(f64::NAN)));
    let a = lin.filter("x", &FactValue::Float(f64::NAN)).len();
    let b = idx.filter("x", &FactValue::Float(f64::NAN)).len();
    (a != b, format!("insert {{x: Float(NaN)}}; filter(x, Float(NaN)): without index {} facts, with index {} facts", a, b))
}

/// known finding: 0.0 == -0.0 but "Float(0.0)" != "Float(-0.0)"
fn c16_alpha_neg_zero() -> (bool, String) {
    let mut lin = AlphaMemoryIndex::new();
    lin.insert(fact(FactValue::Float(0.0)));
    let mut idx = AlphaMemoryIndex::new();
    idx.insert(fact(FactValue::Float(0.0)));
    idx.create_index("x".to_string());
    let a = lin.filter("x", &FactValue::Float(-0.0)).len();
    let b = idx.filter("x", &FactValue::Float(-0.0)).len();
    (a != b, format!("insert {{x: Float(0.0)}}; filter(x, Float(-0.0)): without index {} facts, with index {} facts", a, b))
}

/// bounded search on the part that is PROVED: float-free query values (stored values may be floats), all sequences of up to 4
/// (thorough tier: 6) operations over insert / create_index / drop_index, a filter with every query value after every step.  Expected: nothing found.
fn c16_alpha_float_free_search() -> (bool, String) {
    let vals = || -> Vec<FactValue> {
        vec![
            FactValue::Integer(1),
            FactValue::String("1".to_string()),
            FactValue::Boolean(true),
            FactValue::Null,
            FactValue::Array(vec![FactValue::Integer(1)]),
            FactValue::Float(1.0),
            FactValue::Float(f64::NAN),
        ]
    };
    let queries: Vec<FactValue> = vals().into_iter().filter(|v| !matches!(v, FactValue::Float(_))).collect();
    // op codes: 0..7 insert vals[k]; 7 insert a fact without the field; 8 create_index; 9 drop_index
    let nops = 10usize;
    let max_len = crate::bound(4, 6);
    let mut tried = 0u64;
    let mut stack: Vec<Vec<usize>> = vec![vec![]];
    while let Some(s) = stack.pop() {
        if !s.is_empty() {
            let mut mem = AlphaMemoryIndex::new();
            for &op in &s {
                match op {
                    k if k < 7 => {
                        mem.insert(fact(vals()[k].clone()));
                    }
                    7 => {
                        let mut f = TypedFacts::new();
                        f.set("y", 1i64);
                        mem.insert(f);
                    }
                    8 => mem.create_index("x".to_string()),
                    _ => mem.drop_index("x"),
                }
                for q in &queries {
                    tried += 1;
                    let got = positions(&mem, &mem.filter("x", q));
                    let exp = reference(mem.get_all(), "x", q);
                    if got != exp {
                        return (true, format!("ops {:?} then filter(x, {:?}): positions {:?}, linear scan {:?}", s, q, got, exp));
                    }
                }
            }
        }
        if s.len() < max_len {
            for op in 0..nops {
                let mut n = s.clone();
                n.push(op);
                stack.push(n);
            }
        }
    }
    (false, format!("{} filters on float-free query values agree with the linear scan (after every step of every sequence of <= {} insert / create_index / drop_index)", tried, max_len))
}

fn rule(name: &str, fields: &[&str], enabled: bool) -> Rule {
    let cond = ConditionGroup::Single(Condition::new("dummy".to_string(), Operator::Equal, Value::Boolean(true)));
    let actions = fields.iter().map(|f| ActionType::Set { field: f.to_string(), value: Value::Boolean(true) }).collect();
    let mut r = Rule::new(name.to_string(), cond, actions);
    r.enabled = enabled;
    r
}

/// bounded search: all sequences of up to 5 (thorough tier: 7) add_rule / remove_rule over 2 rule names x 3 shapes; after every step every goal
/// `F == true` must propose every rule added while enabled with Set{F} and not removed since.  Expected: nothing found.
fn c16_conclusion_index_search() -> (bool, String) {
    let fields = ["User.IsVIP", "Order.Status"];
    let shapes: Vec<(Vec<&str>, bool)> = vec![(vec!["User.IsVIP"], true), (vec!["User.IsVIP", "Order.Status"], true), (vec!["Order.Status"], false)];
    let names = ["A", "B"];
    // op: 0..6 add (name = op / 3, shape = op % 3); 6,7 remove name
    let max_len = crate::bound(5, 7);
    let mut tried = 0u64;
    let mut stack: Vec<Vec<usize>> = vec![vec![]];
    while let Some(s) = stack.pop() {
        if !s.is_empty() {
            let mut idx = ConclusionIndex::new();
            let mut live: HashSet<(String, String)> = HashSet::new();
            for &op in &s {
                if op < 6 {
                    let (fs, en) = &shapes[op % 3];
                    let n = names[op / 3];
                    idx.add_rule(&rule(n, fs, *en));
                    if *en {
                        for f in fs {
                            live.insert((n.to_string(), f.to_string()));
                        }
                    }
                } else {
                    let n = names[op - 6];
                    idx.remove_rule(n);
                    live.retain(|(m, _)| m != n);
                }
                for f in &fields {
                    tried += 1;
                    let c = idx.find_candidates(&format!("{} == true", f));
                    for (n, g) in &live {
                        if g == f && !c.contains(n) {
                            return (true, format!("ops {:?}: goal `{} == true` does not propose live rule {} (candidates {:?})", s, f, n, c));
                        }
                    }
                }
            }
        }
        if s.len() < max_len {
            for op in 0..8 {
                let mut n = s.clone();
                n.push(op);
                stack.push(n);
            }
        }
    }
    (false, format!("{} lookups propose every live rule (after every step of every sequence of <= {} add_rule / remove_rule over 2 names x 3 shapes)", tried, max_len))
}

pub fn witnesses() -> Vec<crate::W> {
    vec![
        ("c16_alpha_nan", c16_alpha_nan),
        ("c16_alpha_neg_zero", c16_alpha_neg_zero),
        ("c16_alpha_float_free_search", c16_alpha_float_free_search),
        ("c16_conclusion_index_search", c16_conclusion_index_search),
    ]
}
