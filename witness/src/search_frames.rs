//! C10, FIRST sentence, companion of unit search_frames: "A backward-chaining query that is reported not provable leaves the caller's
//! facts exactly as they were before the call."  NEGATED queries (`NOT <goal>`), which c10b.rs does not ask.
//! Register in main.rs with `mod search_frames;` and `all.extend(search_frames::witnesses());`.
//!
//! Why negated queries: in the depth-first search a non-negated query can only be reported not provable if no (sub-)goal was proved by
//! a rule, so a frame left open by a proved sub-goal never shows in a failed non-negated query; a negated query is reported not
//! provable exactly when something WAS proved.
//!
//!   c10_dfs_negated_query_keeps_subgoal_facts
//!        fixed history (found by Verus: C10.dfs_recursive_closes_every_frame_it_opened failed at both `return true; // keep changes`
//!        exits of DepthFirstSearch::search_recursive_with_execution before the fix): rules p_from_a, q_from_a, g_wrong_from_pq,
//!        facts {A.v: true}, DepthFirst, query "NOT G.v == true" -> reported NOT provable, P.v = true left behind
//!   c10_negated_query_search_{dfs,iterative,bfs}
//!        every rule set of <= 3 rules out of a pool of 8, 3 start states, queries NOT F == b for F in P/Q/G and b in true/false,
//!        max_depth 1/3/5, max_solutions 1/2 (dfs).  Reference from the statement: if the call returns Ok with provable == false, the
//!        facts afterwards equal the facts before, AND (undo-frame stack "exactly as it was": the caller had no frame open) a
//!        rollback_undo_frame() issued by the caller right after changes nothing.  Calls that return Err or panic are skipped.
use rust_rule_engine::backward::{BackwardConfig, BackwardEngine, SearchStrategy};
use rust_rule_engine::{ActionType, Condition, ConditionGroup, Facts, KnowledgeBase, Operator, Rule, Value};
use std::panic::{catch_unwind, AssertUnwindSafe};

fn atom(f: &str, b: bool) -> ConditionGroup {
    ConditionGroup::single(Condition::new(format!("{}.v", f), Operator::Equal, Value::Boolean(b)))
}
fn set(f: &str, b: bool) -> ActionType {
    ActionType::Set { field: format!("{}.v", f), value: Value::Boolean(b) }
}

struct Tmpl {
    name: &'static str,
    conds: &'static [(&'static str, bool)],
    acts: &'static [(&'static str, bool)],
}

const POOL: [Tmpl; 8] = [
    Tmpl { name: "p_from_a", conds: &[("A", true)], acts: &[("P", true)] },
    Tmpl { name: "q_from_a", conds: &[("A", true)], acts: &[("Q", true)] },
    Tmpl { name: "g_from_pq", conds: &[("P", true), ("Q", true)], acts: &[("G", true)] },
    Tmpl { name: "g_wrong_from_pq", conds: &[("P", true), ("Q", true)], acts: &[("G", false)] },
    Tmpl { name: "g_from_p", conds: &[("P", true)], acts: &[("G", true)] },
    Tmpl { name: "g_wrong_from_p", conds: &[("P", true)], acts: &[("G", false)] },
    Tmpl { name: "q_from_b", conds: &[("B", true)], acts: &[("Q", true)] },
    Tmpl { name: "q_from_p", conds: &[("P", true)], acts: &[("Q", true)] },
];

fn build(t: &Tmpl) -> Rule {
    let mut g = atom(t.conds[0].0, t.conds[0].1);
    for c in &t.conds[1..] {
        g = ConditionGroup::and(g, atom(c.0, c.1));
    }
    Rule::new(t.name.to_string(), g, t.acts.iter().map(|a| set(a.0, a.1)).collect())
}

fn describe(set: &[usize]) -> String {
    set.iter()
        .map(|&i| {
            let t = &POOL[i];
            let c: Vec<String> = t.conds.iter().map(|c| format!("{}.v == {}", c.0, c.1)).collect();
            let a: Vec<String> = t.acts.iter().map(|a| format!("{}.v = {}", a.0, a.1)).collect();
            format!("{}: {} => {}", t.name, c.join(" && "), a.join("; "))
        })
        .collect::<Vec<_>>()
        .join(" | ")
}

fn sorted(f: &Facts) -> Vec<(String, Value)> {
    let mut all: Vec<(String, Value)> = f.get_all_facts().into_iter().collect();
    all.sort_by(|a, b| a.0.cmp(&b.0));
    all
}

/// start states: 0 = {A}; 1 = {A, P = false (stale)}; 2 = {A, Q}
fn start(state: usize) -> Facts {
    let f = Facts::new();
    f.set("A.v", Value::Boolean(true));
    if state == 1 {
        f.set("P.v", Value::Boolean(false));
    }
    if state == 2 {
        f.set("Q.v", Value::Boolean(true));
    }
    f
}

fn engine(set: &[usize], strategy: SearchStrategy, depth: usize, max_solutions: usize) -> BackwardEngine {
    let kb = KnowledgeBase::new("c10");
    for &i in set {
        kb.add_rule(build(&POOL[i])).unwrap();
    }
    BackwardEngine::with_config(kb, BackwardConfig { max_depth: depth, strategy, enable_memoization: false, max_solutions })
}

fn ask(e: &mut BackwardEngine, q: &str, f: &mut Facts) -> Option<bool> {
    match catch_unwind(AssertUnwindSafe(|| e.query(q, f).map(|r| r.provable))) {
        Ok(Ok(b)) => Some(b),
        _ => None,
    }
}

fn quiet<T>(work: impl FnOnce() -> T) -> T {
    let hook = std::panic::take_hook();
    std::panic::set_hook(Box::new(|_| {}));
    let r = work();
    std::panic::set_hook(hook);
    r
}

fn c10_dfs_negated_query_keeps_subgoal_facts() -> (bool, String) {
    let set = [0usize, 1, 3];
    let mut e = engine(&set, SearchStrategy::DepthFirst, 5, 1);
    let mut f = start(0);
    let before = sorted(&f);
    let r = quiet(|| ask(&mut e, "NOT G.v == true", &mut f));
    let after = sorted(&f);
    f.rollback_undo_frame();
    let after_rollback = sorted(&f);
    (
        r == Some(false) && (after != before || after_rollback != after),
        format!(
            "rules [{}]; strategy DepthFirst, max_depth 5, max_solutions 1, memoisation off; facts before {:?}; query(NOT G.v == true) = {}; facts after {:?}; after a caller-side rollback_undo_frame() without begin {:?}",
            describe(&set),
            before,
            match r {
                Some(true) => "provable",
                Some(false) => "NOT provable",
                None => "error",
            },
            after,
            after_rollback
        ),
    )
}

fn negated_query_search(strategy: SearchStrategy) -> (bool, String) {
    quiet(|| {
        // every set of <= 3 rules of the pool (thorough tier: every subset of the pool), in the order a; a,b; a,b,c; ..
        let n = POOL.len();
        let max_size = crate::bound(3, 8);
        let mut sets: Vec<Vec<usize>> = Vec::new();
        fn extend(v: &mut Vec<Vec<usize>>, cur: &mut Vec<usize>, from: usize, n: usize, max_size: usize) {
            for a in from..n {
                cur.push(a);
                v.push(cur.clone());
                if cur.len() < max_size {
                    extend(v, cur, a + 1, n, max_size);
                }
                cur.pop();
            }
        }
        extend(&mut sets, &mut Vec::new(), 0, n, max_size);
        let mut queries = Vec::new();
        for fld in ["P", "Q", "G"] {
            for b in [true, false] {
                queries.push(format!("NOT {}.v == {}", fld, b));
            }
        }
        let sols: &[usize] = if strategy == SearchStrategy::DepthFirst { &[1, 2] } else { &[1] };
        let (mut asked, mut failed, mut skipped) = (0u64, 0u64, 0u64);
        for set in &sets {
            for state in 0..3 {
                for &max_solutions in sols {
                    for depth in [1usize, 3, 5] {
                        for q in &queries {
                            let mut e = engine(set, strategy, depth, max_solutions);
                            let mut f = start(state);
                            let before = sorted(&f);
                            asked += 1;
                            match ask(&mut e, q, &mut f) {
                                Some(false) => {
                                    failed += 1;
                                    let after = sorted(&f);
                                    f.rollback_undo_frame();
                                    let after_rollback = sorted(&f);
                                    if after != before || after_rollback != after {
                                        return (
                                            true,
                                            format!(
                                                "rules [{}]; strategy {:?}, max_depth {}, max_solutions {}, memoisation off; facts before {:?}; query({}) reported NOT provable; facts after {:?}; after a caller-side rollback_undo_frame() without begin {:?}",
                                                describe(set),
                                                strategy,
                                                depth,
                                                max_solutions,
                                                before,
                                                q,
                                                after,
                                                after_rollback
                                            ),
                                        );
                                    }
                                }
                                Some(true) => {}
                                None => skipped += 1,
                            }
                        }
                    }
                }
            }
        }
        (
            false,
            format!(
                "{:?}: {} negated queries ({} rule sets of <= {} rules out of 8 x 3 start states x max_depth 1/3/5 x 6 goals): {} reported not provable, all with facts and undo-frame stack unchanged; {} errored or panicked (nothing reported: skipped)",
                strategy,
                asked,
                sets.len(),
                max_size,
                failed,
                skipped
            ),
        )
    })
}

pub fn witnesses() -> Vec<crate::W> {
    vec![
        ("c10_dfs_negated_query_keeps_subgoal_facts", c10_dfs_negated_query_keeps_subgoal_facts),
        ("c10_negated_query_search_dfs", || negated_query_search(SearchStrategy::DepthFirst)),
        ("c10_negated_query_search_iterative", || negated_query_search(SearchStrategy::Iterative)),
        ("c10_negated_query_search_bfs", || negated_query_search(SearchStrategy::BreadthFirst)),
    ]
}
