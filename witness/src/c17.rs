use rust_rule_engine::backward::proof_graph::{FactKey, ProofGraph};
use rust_rule_engine::rete::FactHandle;
use std::collections::{BTreeMap, BTreeSet};

fn key(i: u64) -> FactKey {
    FactKey::new(format!("F{}", i), None, format!("F{}", i))
}

/// fixed history: dependents inserted BEFORE their premises: insert E<-D, D<-P, then invalidate P => E must not be proven
fn c17_dependent_inserted_before_premise() -> (bool, String) {
    let mut g = ProofGraph::new();
    let (p, d, e) = (FactHandle::new(1), FactHandle::new(2), FactHandle::new(3));
    g.insert_proof(e, key(3), "r_e".into(), vec![d], vec![]);
    g.insert_proof(d, key(2), "r_d".into(), vec![p], vec![]);
    g.invalidate_handle(&p);
    let proven = g.is_proven(&key(3));
    (proven, format!("insert E<-D; insert D<-P; invalidate P: is_proven(E) = {} (expected false)", proven))
}

#[derive(Clone, Debug)]
enum Op {
    Insert(u64, Vec<u64>),
    Invalidate(u64),
}

/// reference semantics, written from the statement: a justification dies for good as soon as one of its
/// premises is dead; a node is dead when directly invalidated (until re-proved) or when it has a node
/// and all its justifications have died.
struct Model {
    justs: BTreeMap<u64, Vec<Vec<u64>>>, // surviving justifications per node
    direct: BTreeSet<u64>,               // directly invalidated and not re-proved since
}
impl Model {
    fn valid(&self, h: u64) -> bool {
        self.justs.get(&h).map(|j| !j.is_empty()).unwrap_or(false) && !self.direct.contains(&h)
    }
    fn kill_premise(&mut self, p: u64) {
        // remove every justification mentioning p; nodes that lose all justifications die and propagate
        let mut work = vec![p];
        while let Some(x) = work.pop() {
            let keys: Vec<u64> = self.justs.keys().cloned().collect();
            for h in keys {
                let js = self.justs.get_mut(&h).unwrap();
                let before = js.len();
                js.retain(|j| !j.contains(&x));
                if js.len() != before && js.is_empty() {
                    work.push(h);
                }
            }
        }
    }
}

/// bounded search: sequences of <= 5 operations over 4 handles; an invalidated handle is never used as a premise later.
/// Thorough tier: the same, and then sequences of <= 6 operations over the 3 handles 1, 2, 3 (one more operation over all
/// 4 handles would take about 22 times as long).
fn c17_invalidation_search() -> (bool, String) {
    let (bad, d) = invalidation_search(&[1u64, 2, 3, 4], 5);
    if bad || !crate::thorough() {
        return (bad, d);
    }
    let (bad2, d2) = invalidation_search(&[1u64, 2, 3], 6);
    if bad2 {
        return (bad2, d2);
    }
    (false, format!("{} (<= 5 operations over 4 handles) + {} (<= 6 operations over 3 handles)", d, d2))
}

fn invalidation_search(hs: &[u64], max_len: usize) -> (bool, String) {
    let mut ops: Vec<Op> = Vec::new();
    for &h in hs {
        ops.push(Op::Invalidate(h));
        ops.push(Op::Insert(h, vec![]));
        for &p in hs {
            if p != h {
                ops.push(Op::Insert(h, vec![p]));
            }
        }
    }
    // two premises: 1, 2 -> every other handle, the largest first
    for &h in hs.iter().rev() {
        if h > 2 {
            ops.push(Op::Insert(h, vec![1, 2]));
        }
    }
    let mut tried = 0u64;
    let mut stack: Vec<Vec<usize>> = vec![vec![]];
    while let Some(s) = stack.pop() {
        if !s.is_empty() {
            tried += 1;
            let mut g = ProofGraph::new();
            let mut m = Model { justs: BTreeMap::new(), direct: BTreeSet::new() };
            let mut ever_invalid: BTreeSet<u64> = BTreeSet::new();
            let mut ok_seq = true;
            for &oi in &s {
                match &ops[oi] {
                    Op::Insert(h, ps) => {
                        if ps.iter().any(|p| ever_invalid.contains(p) || (m.justs.contains_key(p) && !m.valid(*p))) {
                            ok_seq = false; // outside the quantifier: dead handle used as a premise
                            break;
                        }
                        g.insert_proof(FactHandle::new(*h), key(*h), "r".into(), ps.iter().map(|p| FactHandle::new(*p)).collect(), vec![]);
                        m.justs.entry(*h).or_default().push(ps.clone());
                        m.direct.remove(h);
                    }
                    Op::Invalidate(h) => {
                        g.invalidate_handle(&FactHandle::new(*h));
                        ever_invalid.insert(*h);
                        if m.justs.contains_key(h) {
                            m.direct.insert(*h);
                        }
                        m.kill_premise(*h);
                    }
                }
                for &h in hs {
                    let got = g.is_proven(&key(h));
                    if got != m.valid(h) {
                        let trace: Vec<&Op> = s.iter().map(|i| &ops[*i]).collect();
                        return (true, format!("ops {:?}: is_proven(F{}) = {}, expected {}", trace, h, got, m.valid(h)));
                    }
                }
            }
            if !ok_seq {
                continue;
            }
        }
        if s.len() < max_len {
            for i in 0..ops.len() {
                let mut n = s.clone();
                n.push(i);
                stack.push(n);
            }
        }
    }
    (false, format!("{} sequences", tried))
}

pub fn witnesses() -> Vec<crate::W> {
    vec![
        ("c17_dependent_inserted_before_premise", c17_dependent_inserted_before_premise),
        ("c17_invalidation_search", c17_invalidation_search),
    ]
}
