//! C07 witness searches: RETE agenda order, no-loop, activation-group exclusivity, and termination of every fire_all.
//!
//! Agenda part: histories of add_activation / get_next_activation (+ mark_rule_fired) / set_focus / reset_fired_flags /
//! clear on `AdvancedAgenda`, checked against a REFERENCE written from the statement:
//!   * an activation that comes out must be pending, must not be a no-loop activation of a rule already fired since
//!     the last reset, and must not belong to an activation group of which ANOTHER rule fired since the last reset;
//!   * it must come from the focused agenda group whenever that group holds an eligible pending activation (otherwise
//!     from a group that was focused earlier), and no eligible pending activation of its group may be ahead of it
//!     (higher salience, or equal salience and created earlier; creation instants are set explicitly, so there is
//!     no wall-clock dependence);
//!   * None may come out only if the focused group holds no eligible pending activation.
//! What the statement leaves open is left open: an activation that was ineligible when a pop passed over it, or that
//! was added while its activation group had fired, or that is lock-on-active in a group where a lock-on-active
//! activation fired, may or may not come out later ("maybe" status: it constrains nothing, but if it comes out it is
//! still subject to the no-loop / activation-group rules).
//!
//! Termination part: always-true rules with no_loop = false on IncrementalEngine, TypedReteUlEngine, ReteUlEngine,
//! each call in a thread with a 20 s watchdog; the number of reported firings is compared with the iteration bound.
//!
//! Register in main.rs with `mod c07;` and `all.extend(c07::witnesses());`.
use rust_rule_engine::rete::grl_loader::GrlReteLoader;
use rust_rule_engine::rete::propagation::IncrementalEngine;
use rust_rule_engine::rete::{Activation, AdvancedAgenda, AlphaNode, ReteUlEngine, ReteUlNode, TypedFacts, TypedReteUlEngine, TypedReteUlRule};
use std::collections::{BTreeMap, BTreeSet};
use std::sync::atomic::{AtomicUsize, Ordering};
use std::sync::{mpsc, Arc};
use std::time::{Duration, Instant};

// ------------------------------------------------------------------------------------------------ agenda model

#[derive(Clone, Copy, Debug, PartialEq)]
struct T {
    rule: u8,
    sal: i32,
    ag: u8,
    actg: Option<u8>,
    no_loop: bool,
    lock: bool,
}

#[derive(Clone, Debug)]
enum Op {
    /// add an activation; the second field is an explicit creation instant (ms after the base), default = its index
    Add(T, Option<u64>),
    /// get_next_activation followed by mark_rule_fired on what came out
    Fire,
    /// get_next_activation alone
    Pop,
    Focus(u8),
    Reset,
    Clear,
}

const AG: [&str; 3] = ["MAIN", "G", "H"];
const ACTG: [&str; 2] = ["X", "Y"];
const RULES: [&str; 3] = ["a", "b", "c"];

fn show_t(t: &T, created: u64) -> String {
    format!(
        "{{rule {} salience {} group {} activation-group {} no_loop {} lock_on_active {} created t+{}ms}}",
        RULES[t.rule as usize],
        t.sal,
        AG[t.ag as usize],
        t.actg.map(|g| ACTG[g as usize]).unwrap_or("-"),
        t.no_loop,
        t.lock,
        created
    )
}

fn show_ops(ops: &[Op]) -> String {
    let mut n = 0u64;
    ops.iter()
        .map(|o| match o {
            Op::Add(t, c) => {
                let s = format!("add#{} {}", n, show_t(t, c.unwrap_or(n)));
                n += 1;
                s
            }
            Op::Fire => "get_next+mark_fired".to_string(),
            Op::Pop => "get_next".to_string(),
            Op::Focus(g) => format!("set_focus({})", AG[*g as usize]),
            Op::Reset => "reset_fired_flags".to_string(),
            Op::Clear => "clear".to_string(),
        })
        .collect::<Vec<_>>()
        .join("; ")
}

#[derive(Clone, Debug)]
struct P {
    tag: usize,
    t: T,
    created: u64,
    /// false = may already have been discarded (see module comment)
    certain: bool,
}

enum El {
    Blocked(String),
    Maybe,
    Yes,
}

struct Model {
    pending: Vec<P>,
    fired_rules: BTreeSet<u8>,
    fired_groups: BTreeMap<u8, BTreeSet<u8>>,
    locks: BTreeSet<u8>,
    focus: u8,
    ever_focused: BTreeSet<u8>,
    next: usize,
}

fn ahead(p: &P, q: &P) -> bool {
    p.t.sal > q.t.sal || (p.t.sal == q.t.sal && p.created < q.created)
}

impl Model {
    fn new() -> Self {
        Model {
            pending: vec![],
            fired_rules: BTreeSet::new(),
            fired_groups: BTreeMap::new(),
            locks: BTreeSet::new(),
            focus: 0,
            ever_focused: [0u8].into_iter().collect(),
            next: 0,
        }
    }
    fn elig(&self, p: &P) -> El {
        if p.t.no_loop && self.fired_rules.contains(&p.t.rule) {
            return El::Blocked(format!("no-loop rule {} came out again although it fired since the last reset", RULES[p.t.rule as usize]));
        }
        if let Some(g) = p.t.actg {
            if let Some(rs) = self.fired_groups.get(&g) {
                if rs.iter().any(|r| *r != p.t.rule) {
                    return El::Blocked(format!(
                        "rule {} of activation group {} came out although rule {} of that group fired since the last reset",
                        RULES[p.t.rule as usize],
                        ACTG[g as usize],
                        RULES[*rs.iter().find(|r| **r != p.t.rule).unwrap() as usize]
                    ));
                }
                if !rs.is_empty() {
                    return El::Maybe;
                }
            }
        }
        if p.t.lock && self.locks.contains(&p.t.ag) {
            return El::Maybe;
        }
        El::Yes
    }
    fn sure(&self, p: &P) -> bool {
        p.certain && matches!(self.elig(p), El::Yes)
    }
    fn add(&mut self, t: T, created: Option<u64>) -> P {
        let tag = self.next;
        self.next += 1;
        let certain = t.actg.map(|g| self.fired_groups.get(&g).map(|s| s.is_empty()).unwrap_or(true)).unwrap_or(true);
        let p = P { tag, t, created: created.unwrap_or(tag as u64), certain };
        self.pending.push(p.clone());
        p
    }
    fn pop(&mut self, got: Option<&Activation>, focus_after: &str, mark: bool) -> Result<(), String> {
        let f = self.focus;
        let sure_in = |m: &Model, g: u8| -> Vec<P> { m.pending.iter().filter(|p| p.t.ag == g && m.sure(p)).cloned().collect() };
        match got {
            None => {
                if let Some(p) = sure_in(self, f).first() {
                    return Err(format!("get_next_activation returned None while {} is pending and eligible in the focused group {}", show_t(&p.t, p.created), AG[f as usize]));
                }
                let flags: Vec<bool> = self.pending.iter().map(|p| self.sure(p)).collect();
                for (p, s) in self.pending.iter_mut().zip(flags) {
                    if !s {
                        p.certain = false;
                    }
                }
                if let Some(i) = AG.iter().position(|n| *n == focus_after) {
                    self.focus = i as u8;
                }
                Ok(())
            }
            Some(x) => {
                let tag = x.condition_count;
                let idx = match self.pending.iter().position(|p| p.tag == tag) {
                    Some(i) => i,
                    None => return Err(format!("activation add#{} (rule {}) came out although it is not pending (it came out before, or was cleared)", tag, x.rule_name)),
                };
                let p = self.pending[idx].clone();
                if x.rule_name != RULES[p.t.rule as usize] || x.salience != p.t.sal || x.agenda_group != AG[p.t.ag as usize] {
                    return Err(format!("activation add#{} came out altered: {:?}", tag, x));
                }
                if let El::Blocked(why) = self.elig(&p) {
                    return Err(why);
                }
                let g = p.t.ag;
                if g != f {
                    if let Some(q) = sure_in(self, f).first() {
                        return Err(format!(
                            "{} of group {} came out while the focused group {} holds the eligible pending {}",
                            show_t(&p.t, p.created),
                            AG[g as usize],
                            AG[f as usize],
                            show_t(&q.t, q.created)
                        ));
                    }
                    if !self.ever_focused.contains(&g) {
                        return Err(format!("{} came out although its agenda group {} never had the focus", show_t(&p.t, p.created), AG[g as usize]));
                    }
                }
                for q in sure_in(self, g) {
                    if q.tag != p.tag && ahead(&q, &p) {
                        return Err(format!("{} came out before the eligible pending {} (order: descending salience, earlier created first)", show_t(&p.t, p.created), show_t(&q.t, q.created)));
                    }
                }
                if focus_after != AG[g as usize] {
                    return Err(format!("{} came out of group {} but get_focus() = {}", show_t(&p.t, p.created), AG[g as usize], focus_after));
                }
                // whatever was ineligible and not strictly behind the returned activation in its own group may have been discarded
                let flags: Vec<bool> = self.pending.iter().map(|q| self.sure(q) || (q.t.ag == g && ahead(&p, q))).collect();
                for (q, s) in self.pending.iter_mut().zip(flags) {
                    if !s {
                        q.certain = false;
                    }
                }
                self.pending.remove(idx);
                self.focus = g;
                if mark {
                    self.fired_rules.insert(p.t.rule);
                    if let Some(ag) = p.t.actg {
                        self.fired_groups.entry(ag).or_default().insert(p.t.rule);
                    }
                    if p.t.lock {
                        self.locks.insert(p.t.ag);
                    }
                }
                Ok(())
            }
        }
    }
}

fn make(t: &T, tag: usize, created: u64, base: Instant) -> Activation {
    let mut a = Activation::new(RULES[t.rule as usize].to_string(), t.sal)
        .with_agenda_group(AG[t.ag as usize].to_string())
        .with_no_loop(t.no_loop)
        .with_lock_on_active(t.lock)
        .with_condition_count(tag); // the tag identifies the activation when it comes out (unused by the default strategy)
    if let Some(g) = t.actg {
        a = a.with_activation_group(ACTG[g as usize].to_string());
    }
    a.created_at = base + Duration::from_millis(created);
    a
}

/// replay one history on a fresh agenda; Some(description) on the first departure from the reference
fn replay(ops: &[Op]) -> Option<String> {
    let base = Instant::now();
    let mut ag = AdvancedAgenda::new();
    let mut m = Model::new();
    for (i, op) in ops.iter().enumerate() {
        let r: Result<(), String> = match op {
            Op::Add(t, c) => {
                let p = m.add(*t, *c);
                ag.add_activation(make(t, p.tag, p.created, base));
                Ok(())
            }
            Op::Fire | Op::Pop => {
                let got = ag.get_next_activation();
                let mark = matches!(op, Op::Fire);
                if mark {
                    if let Some(a) = &got {
                        ag.mark_rule_fired(a);
                    }
                }
                let fa = ag.get_focus().to_string();
                m.pop(got.as_ref(), &fa, mark)
            }
            Op::Focus(g) => {
                ag.set_focus(AG[*g as usize].to_string());
                m.focus = *g;
                m.ever_focused.insert(*g);
                if ag.get_focus() != AG[*g as usize] {
                    Err(format!("get_focus() = {} after set_focus({})", ag.get_focus(), AG[*g as usize]))
                } else {
                    Ok(())
                }
            }
            Op::Reset => {
                ag.reset_fired_flags();
                m.fired_rules.clear();
                m.fired_groups.clear();
                m.locks.clear();
                Ok(())
            }
            Op::Clear => {
                ag.clear();
                let next = m.next;
                m = Model::new();
                m.next = next;
                Ok(())
            }
        };
        if let Err(e) = r {
            return Some(format!("{} -- at step {}: {}", show_ops(ops), i + 1, e));
        }
    }
    None
}

// ------------------------------------------------------------------------------------------------ agenda searches

const SAL: [i32; 7] = [i32::MIN, -2_000_000_000, -1, 0, 1, 2_000_000_000, i32::MAX];

fn plain(rule: u8, sal: i32) -> T {
    T { rule, sal, ag: 0, actg: None, no_loop: false, lock: false }
}

fn permutations(n: usize) -> Vec<Vec<u64>> {
    fn rec(cur: &mut Vec<u64>, used: &mut Vec<bool>, out: &mut Vec<Vec<u64>>) {
        if cur.len() == used.len() {
            out.push(cur.clone());
            return;
        }
        for i in 0..used.len() {
            if !used[i] {
                used[i] = true;
                cur.push(i as u64);
                rec(cur, used, out);
                cur.pop();
                used[i] = false;
            }
        }
    }
    let mut out = vec![];
    rec(&mut vec![], &mut vec![false; n], &mut out);
    out
}

/// order alone: every sequence of <= 4 activations with saliences from {i32::MIN, -2e9, -1, 0, 1, 2e9, i32::MAX}
/// (pairs more than i32::MAX apart, ties), every assignment of distinct creation instants (also created earlier but
/// added later), all added to MAIN and popped; plus every interleaving of add / pop of length <= 7 over three saliences.
fn c07_order_extreme_salience_search() -> (bool, String) {
    let (max_n, max_inter) = (crate::bound(4, 5), crate::bound(7, 9));
    let mut tried = 0u64;
    for n in 1..=max_n {
        let perms = permutations(n);
        let mut idx = vec![0usize; n];
        loop {
            for perm in &perms {
                let mut ops: Vec<Op> = (0..n).map(|i| Op::Add(plain((i % 3) as u8, SAL[idx[i]]), Some(perm[i] * 2))).collect();
                for _ in 0..=n {
                    ops.push(Op::Fire);
                }
                tried += 1;
                if let Some(v) = replay(&ops) {
                    return (true, v);
                }
            }
            // next salience vector
            let mut k = 0;
            while k < n {
                idx[k] += 1;
                if idx[k] < SAL.len() {
                    break;
                }
                idx[k] = 0;
                k += 1;
            }
            if k == n {
                break;
            }
        }
    }
    // interleavings
    let alphabet = [Op::Add(plain(0, -2_000_000_000), None), Op::Add(plain(1, 0), None), Op::Add(plain(2, 2_000_000_000), None), Op::Pop];
    let mut stack: Vec<Vec<Op>> = vec![vec![]];
    while let Some(s) = stack.pop() {
        if !s.is_empty() {
            tried += 1;
            let mut full = s.clone();
            full.push(Op::Pop);
            full.push(Op::Pop);
            if let Some(v) = replay(&full) {
                return (true, v);
            }
        }
        if s.len() < max_inter {
            for o in &alphabet {
                let mut t = s.clone();
                t.push(o.clone());
                stack.push(t);
            }
        }
    }
    (false, format!("{} histories (<= {} activations over 7 saliences incl. i32::MIN/MAX and +-2e9 with every creation order; add/pop interleavings of length <= {}), all in agenda order", tried, max_n, max_inter))
}

/// flags in one agenda group: every 2- and 3-sequence of activations over rule {a,b} x salience {0,5} x activation group
/// {-,X} x no_loop x lock_on_active (32 templates, incl. activation group AND lock-on-active on one activation),
/// followed by each of a list of control scripts (fire all; fire, reset, fire; fire, re-add the first, fire; pop
/// without marking; ...)
fn c07_flags_one_group_search() -> (bool, String) {
    let mut templates = Vec::new();
    for rule in 0..2u8 {
        for sal in [0, 5] {
            for actg in [None, Some(0u8)] {
                for no_loop in [false, true] {
                    for lock in [false, true] {
                        templates.push(T { rule, sal, ag: 0, actg, no_loop, lock });
                    }
                }
            }
        }
    }
    // scripts: 'F' fire, 'P' pop only, 'R' reset, '0'/'1'/'2' add a fresh copy of that template of the history
    let scripts = ["FFFF", "FRFFF", "F0FFF", "FF1FF", "PFFF", "FFRFF", "F0RFFF", "FRF0FF", "FF0R1FFF", "F1F0FRFFF", "PPPP", "FP0FRFF"];
    let max_n = crate::bound(3, 4);
    let mut tried = 0u64;
    for n in 2..=max_n {
        let mut idx = vec![0usize; n];
        loop {
            let adds: Vec<T> = idx.iter().map(|i| templates[*i]).collect();
            for sc in &scripts {
                let mut ops: Vec<Op> = adds.iter().map(|t| Op::Add(*t, None)).collect();
                for ch in sc.chars() {
                    ops.push(match ch {
                        'F' => Op::Fire,
                        'P' => Op::Pop,
                        'R' => Op::Reset,
                        d => Op::Add(adds[(d as usize - '0' as usize).min(n - 1)], None),
                    });
                }
                tried += 1;
                if let Some(v) = replay(&ops) {
                    return (true, v);
                }
            }
            let mut k = 0;
            while k < n {
                idx[k] += 1;
                if idx[k] < templates.len() {
                    break;
                }
                idx[k] = 0;
                k += 1;
            }
            if k == n {
                break;
            }
        }
    }
    (false, format!("{} histories (2-{} activations over 32 flag/group/salience templates x {} control scripts), no-loop / activation-group / order as the reference", tried, max_n, scripts.len()))
}

/// agenda groups and focus: 2-3 activations over rule {a,b} x salience {0,5} x agenda group {MAIN,G} x lock_on_active
/// (no_loop false) followed by every control sequence of length <= 4 (<= 3 for three activations) over
/// {fire, set_focus(G), set_focus(MAIN), reset} and two trailing fires
fn c07_focus_search() -> (bool, String) {
    let mut templates = Vec::new();
    for rule in 0..2u8 {
        for sal in [0, 5] {
            for ag in 0..2u8 {
                for lock in [false, true] {
                    templates.push(T { rule, sal, ag, actg: None, no_loop: false, lock });
                }
            }
        }
    }
    let control = [Op::Fire, Op::Focus(1), Op::Focus(0), Op::Reset];
    let longer = crate::bound(0, 1); // thorough tier: control sequences one operation longer
    let mut tried = 0u64;
    for n in 2..=3usize {
        let max_c = (if n == 2 { 4 } else { 3 }) + longer;
        let mut seqs: Vec<Vec<Op>> = vec![];
        let mut stack: Vec<Vec<Op>> = vec![vec![]];
        while let Some(s) = stack.pop() {
            if !s.is_empty() {
                seqs.push(s.clone());
            }
            if s.len() < max_c {
                for o in &control {
                    let mut t = s.clone();
                    t.push(o.clone());
                    stack.push(t);
                }
            }
        }
        let mut idx = vec![0usize; n];
        loop {
            for sq in &seqs {
                let mut ops: Vec<Op> = idx.iter().map(|i| Op::Add(templates[*i], None)).collect();
                ops.extend(sq.iter().cloned());
                ops.push(Op::Fire);
                ops.push(Op::Fire);
                tried += 1;
                if let Some(v) = replay(&ops) {
                    return (true, v);
                }
            }
            let mut k = 0;
            while k < n {
                idx[k] += 1;
                if idx[k] < templates.len() {
                    break;
                }
                idx[k] = 0;
                k += 1;
            }
            if k == n {
                break;
            }
        }
    }
    (false, format!("{} histories (2-3 activations over two agenda groups x every control sequence of <= {} (2 activations) / <= {} (3 activations) operations over fire / set_focus / reset), focused group and order as the reference", tried, 4 + longer, 3 + longer))
}

/// fixed-seed pseudo-random histories of 14 operations over the whole alphabet (3 rules, 7 saliences, 3 agenda groups,
/// 2 activation groups, both flags, fire / pop / set_focus / reset / clear)
fn c07_mixed_history_search() -> (bool, String) {
    let mut s: u64 = 0x9E37_79B9_7F4A_7C15;
    let mut rnd = move |n: u64| -> u64 {
        s ^= s << 13;
        s ^= s >> 7;
        s ^= s << 17;
        (s >> 11) % n
    };
    let n_hist = crate::bound(60_000, 600_000) as u64;
    for _ in 0..n_hist {
        let mut ops = Vec::new();
        let small = rnd(2) == 0; // half of the histories draw from a small alphabet so that collisions are frequent
        for _ in 0..14 {
            let r = rnd(100);
            ops.push(if r < 45 {
                let t = if small {
                    T { rule: rnd(2) as u8, sal: [0, 5][rnd(2) as usize], ag: rnd(2) as u8, actg: [None, Some(0u8)][rnd(2) as usize], no_loop: rnd(2) == 0, lock: rnd(3) == 0 }
                } else {
                    T {
                        rule: rnd(3) as u8,
                        sal: SAL[rnd(7) as usize],
                        ag: [0, 0, 1, 2][rnd(4) as usize],
                        actg: [None, None, Some(0u8), Some(1u8)][rnd(4) as usize],
                        no_loop: rnd(2) == 0,
                        lock: rnd(4) == 0,
                    }
                };
                Op::Add(t, None)
            } else if r < 75 {
                Op::Fire
            } else if r < 80 {
                Op::Pop
            } else if r < 90 {
                Op::Focus(rnd(3) as u8)
            } else if r < 98 {
                Op::Reset
            } else {
                Op::Clear
            });
        }
        if let Some(v) = replay(&ops) {
            // shrink: drop operations one at a time while the history still fails
            let mut cur = ops.clone();
            let mut msg = v;
            let mut progress = true;
            while progress {
                progress = false;
                for i in 0..cur.len() {
                    let mut t = cur.clone();
                    t.remove(i);
                    if let Some(v2) = replay(&t) {
                        cur = t;
                        msg = v2;
                        progress = true;
                        break;
                    }
                }
            }
            return (true, msg);
        }
    }
    (false, format!("{} fixed-seed histories of 14 operations over the whole alphabet, all as the reference", n_hist))
}

// ------------------------------------------------------------------------------------------------ termination

const WATCHDOG: Duration = Duration::from_secs(20);

/// runs `f` in a thread; Err(reason) if it panics or does not deliver within the watchdog
fn guarded<F: FnOnce() -> usize + Send + 'static>(f: F) -> Result<usize, String> {
    let (tx, rx) = mpsc::channel();
    std::thread::spawn(move || {
        let n = f();
        let _ = tx.send(n);
    });
    match rx.recv_timeout(WATCHDOG) {
        Ok(n) => Ok(n),
        Err(mpsc::RecvTimeoutError::Timeout) => Err("did not return within 20 s".to_string()),
        Err(mpsc::RecvTimeoutError::Disconnected) => Err("panicked instead of returning".to_string()),
    }
}

fn always(field: &str) -> ReteUlNode {
    ReteUlNode::UlAlpha(AlphaNode { field: field.to_string(), operator: ">".to_string(), value: "0".to_string() })
}

/// action variants: 0 = changes a field every time, 1 = changes nothing, 2 = changes something only the first time
const VARIANTS: [&str; 3] = ["action changes a field every time", "action changes nothing", "action changes something only the first time"];

fn typed_action(variant: usize, key: &'static str) -> impl Fn(&mut TypedFacts, &mut rust_rule_engine::rete::ActionResults) + Send + Sync + 'static {
    let calls = AtomicUsize::new(0);
    move |facts, _| {
        let n = calls.fetch_add(1, Ordering::SeqCst);
        match variant {
            0 => facts.set(key, 1000 + n as i64),
            2 if n == 0 => facts.set(key, 1000i64),
            _ => {}
        }
    }
}

fn c07_fire_all_terminates() -> (bool, String) {
    let mut done = Vec::new();
    for variant in 0..3usize {
        for rules in 1..=2usize {
            // --- IncrementalEngine (bound: 1000 activations taken from the agenda)
            for facts in 1..=2usize {
                let r = guarded(move || {
                    let mut e = IncrementalEngine::new();
                    for k in 0..rules {
                        e.add_rule(
                            TypedReteUlRule {
                                name: format!("always{}", k),
                                node: always("T.x"),
                                priority: k as i32,
                                no_loop: false,
                                action: Arc::new(typed_action(variant, "T.n")),
                            },
                            vec!["T".to_string()],
                        );
                    }
                    for f in 0..facts {
                        let mut t = TypedFacts::new();
                        t.set("x", 1i64 + f as i64);
                        t.set("n", 0i64);
                        e.insert("T".to_string(), t);
                    }
                    e.fire_all().len()
                });
                let what = format!("IncrementalEngine, {} always-true rule(s) T.x > 0 with no_loop=false, {} fact(s) T{{x,n}}, {}", rules, facts, VARIANTS[variant]);
                match r {
                    Err(why) => return (true, format!("{}: fire_all() {}", what, why)),
                    Ok(n) if n > 1000 => return (true, format!("{}: fire_all() reported {} firings, its iteration bound is 1000", what, n)),
                    Ok(n) => done.push(format!("Incremental/{}r/{}f/v{}={}", rules, facts, variant, n)),
                }
            }
            // --- TypedReteUlEngine (bound: 100 rounds, each fires every matching rule once)
            let r = guarded(move || {
                let mut e = TypedReteUlEngine::new();
                e.set_fact("x", 1i64);
                e.set_fact("n", 0i64);
                for k in 0..rules {
                    e.add_rule_with_action(format!("always{}", k), always("x"), k as i32, false, typed_action(variant, "n"));
                }
                e.fire_all().len()
            });
            let what = format!("TypedReteUlEngine, facts x=1 n=0, {} always-true rule(s) x > 0 with no_loop=false, {}", rules, VARIANTS[variant]);
            match r {
                Err(why) => return (true, format!("{}: fire_all() {}", what, why)),
                Ok(n) if n > 100 * rules => return (true, format!("{}: fire_all() reported {} firings, its bound is 100 rounds of {} rule(s)", what, n, rules)),
                Ok(n) => done.push(format!("Typed/{}r/v{}={}", rules, variant, n)),
            }
            // --- ReteUlEngine (bound: 100 rounds)
            let r = guarded(move || {
                let mut e = ReteUlEngine::new();
                e.set_fact("x".to_string(), "1".to_string());
                e.set_fact("n".to_string(), "0".to_string());
                for k in 0..rules {
                    let calls = AtomicUsize::new(0);
                    e.add_rule_with_action(format!("always{}", k), always("x"), k as i32, false, move |facts| {
                        let n = calls.fetch_add(1, Ordering::SeqCst);
                        match variant {
                            0 => {
                                facts.insert("n".to_string(), (1000 + n).to_string());
                            }
                            2 if n == 0 => {
                                facts.insert("n".to_string(), "1000".to_string());
                            }
                            _ => {}
                        }
                    });
                }
                e.fire_all().len()
            });
            let what = format!("ReteUlEngine, facts x=1 n=0, {} always-true rule(s) x > 0 with no_loop=false, {}", rules, VARIANTS[variant]);
            match r {
                Err(why) => return (true, format!("{}: fire_all() {}", what, why)),
                Ok(n) if n > 100 * rules => return (true, format!("{}: fire_all() reported {} firings, its bound is 100 rounds of {} rule(s)", what, n, rules)),
                Ok(n) => done.push(format!("ReteUl/{}r/v{}={}", rules, variant, n)),
            }
        }
    }
    // --- IncrementalEngine: the action asserts a new matching fact every time (the agenda keeps growing)
    let r = guarded(|| {
        let mut e = IncrementalEngine::new();
        e.add_rule(
            TypedReteUlRule {
                name: "spawn".to_string(),
                node: always("T.x"),
                priority: 0,
                no_loop: false,
                action: Arc::new(|_, results| {
                    let mut t = TypedFacts::new();
                    t.set("x", 1i64);
                    results.add(rust_rule_engine::rete::ActionResult::InsertFact { fact_type: "T".to_string(), data: t });
                }),
            },
            vec!["T".to_string()],
        );
        let mut t = TypedFacts::new();
        t.set("x", 1i64);
        e.insert("T".to_string(), t);
        e.fire_all().len()
    });
    let what = "IncrementalEngine, always-true rule T.x > 0 with no_loop=false whose action inserts a new fact T{x:1} every time, one initial fact";
    match r {
        Err(why) => return (true, format!("{}: fire_all() {}", what, why)),
        Ok(n) if n > 1000 => return (true, format!("{}: fire_all() reported {} firings, its iteration bound is 1000", what, n)),
        Ok(n) => done.push(format!("Incremental/spawning={}", n)),
    }
    // --- the same through the GRL loader: an always-true rule without no-loop whose action rewrites the matched fact
    for (label, grl) in [
        ("counter incremented every time", "rule \"Loop\" salience 1 { when T.x > 0 then T.n = T.n + 1; }"),
        ("field set to the same constant every time", "rule \"Loop\" { when T.x > 0 then T.n = 7; }"),
        ("two mutually re-enabling rules", "rule \"Up\" { when T.x > 0 then T.n = 1; } rule \"Down\" { when T.x > 0 then T.n = 2; }"),
    ] {
        let r = guarded(move || {
            let mut e = IncrementalEngine::new();
            if GrlReteLoader::load_from_string(grl, &mut e).is_err() {
                return usize::MAX;
            }
            let mut t = TypedFacts::new();
            t.set("x", 1i64);
            t.set("n", 0i64);
            e.insert("T".to_string(), t);
            e.fire_all().len()
        });
        let what = format!("IncrementalEngine loaded from GRL `{}` ({}), one fact T{{x:1,n:0}}", grl, label);
        match r {
            Err(why) => return (true, format!("{}: fire_all() {}", what, why)),
            Ok(usize::MAX) => done.push(format!("GRL({})=not loaded", label)),
            Ok(n) if n > 1000 => return (true, format!("{}: fire_all() reported {} firings, its iteration bound is 1000", what, n)),
            Ok(n) => done.push(format!("GRL({})={}", label, n)),
        }
    }
    (false, format!("every fire_all returned within its bound; firings: {}", done.join(" ")))
}

/// rule sets with extreme priorities: two always-true rules (no_loop = true, so one round suffices), one of them with
/// priority i32::MIN / i32::MAX, on the three engines
fn c07_fire_all_extreme_priority() -> (bool, String) {
    let mut done = Vec::new();
    let mut bad: Vec<String> = Vec::new();
    for (pa, pb) in [(i32::MIN, 0), (i32::MAX, i32::MIN + 1), (-2_000_000_000, 2_000_000_000)] {
        let r = guarded(move || {
            let mut e = TypedReteUlEngine::new();
            e.set_fact("x", 1i64);
            e.add_rule_with_action("A".to_string(), always("x"), pa, true, |_, _| {});
            e.add_rule_with_action("B".to_string(), always("x"), pb, true, |_, _| {});
            e.fire_all().len()
        });
        match r {
            Err(why) => bad.push(format!("TypedReteUlEngine, fact x=1, rules A (x > 0, priority {}, no-loop) and B (x > 0, priority {}, no-loop): fire_all() {}", pa, pb, why)),
            Ok(n) => done.push(format!("Typed({},{})={}", pa, pb, n)),
        }
        let r = guarded(move || {
            let mut e = ReteUlEngine::new();
            e.set_fact("x".to_string(), "1".to_string());
            e.add_rule_with_action("A".to_string(), always("x"), pa, true, |_| {});
            e.add_rule_with_action("B".to_string(), always("x"), pb, true, |_| {});
            e.fire_all().len()
        });
        match r {
            Err(why) => bad.push(format!("ReteUlEngine, fact x=1, rules A (x > 0, priority {}, no-loop) and B (x > 0, priority {}, no-loop): fire_all() {}", pa, pb, why)),
            Ok(n) => done.push(format!("ReteUl({},{})={}", pa, pb, n)),
        }
        let r = guarded(move || {
            let mut e = IncrementalEngine::new();
            for (name, p) in [("A", pa), ("B", pb)] {
                e.add_rule(TypedReteUlRule { name: name.to_string(), node: always("T.x"), priority: p, no_loop: true, action: Arc::new(|_, _| {}) }, vec!["T".to_string()]);
            }
            let mut t = TypedFacts::new();
            t.set("x", 1i64);
            e.insert("T".to_string(), t);
            e.fire_all().len()
        });
        match r {
            Err(why) => bad.push(format!("IncrementalEngine, fact T{{x:1}}, rules A (T.x > 0, priority {}, no-loop) and B (priority {}, no-loop): fire_all() {}", pa, pb, why)),
            Ok(n) => done.push(format!("Incremental({},{})={}", pa, pb, n)),
        }
    }
    if !bad.is_empty() {
        return (true, bad.join(" || "));
    }
    (false, format!("every fire_all returned: {}", done.join(" ")))
}

pub fn witnesses() -> Vec<crate::W> {
    vec![
        ("c07_order_extreme_salience_search", c07_order_extreme_salience_search as fn() -> (bool, String)),
        ("c07_flags_one_group_search", c07_flags_one_group_search as fn() -> (bool, String)),
        ("c07_focus_search", c07_focus_search as fn() -> (bool, String)),
        ("c07_mixed_history_search", c07_mixed_history_search as fn() -> (bool, String)),
        ("c07_fire_all_terminates", c07_fire_all_terminates as fn() -> (bool, String)),
        ("c07_fire_all_extreme_priority", c07_fire_all_extreme_priority as fn() -> (bool, String)),
    ]
}
