//! C01 (leaf semantics): "... a condition that evaluates to true, under the documented meaning of ... the comparison and string
//! operators and missing fields".  Companion of the Verus unit `operator_verus` (which proves Operator::evaluate == op_meaning for
//! ALL operands relative to uninterpreted std predicates): here the same documented table is re-stated INDEPENDENTLY with std's
//! predicates replaced by naive re-implementations, and run on the real crate over an exhaustive cross product of a small pool.
//! Wire into main.rs with `mod c01b;` + `all.extend(c01b::witnesses());`.
//!
//! Reference (from the doc comments of `Operator` / `Value` in src/types.rs, README "All String Operators", GRL_SYNTAX.md):
//!  * `==`: against null both sides are null-like (null, or the text "null") or neither is; otherwise same kind and same payload
//!    (floats by IEEE ==, arrays element-wise).  `!=` is its negation — for EVERY pair.
//!  * `> >= < <=`: numeric, after coercion (Integer -> float, a string that parses as a float per std's `f64::from_str` grammar);
//!    false as soon as one side is not a number — in particular against null / a missing field.
//!  * `contains / not_contains / startsWith / endsWith / matches`: STRING checks (substring, its negation, prefix, suffix,
//!    substring), false whenever a side is not a string.
//!  * `in`: the right side is an array and some element equals the left value (kind and payload).
//! SKIPPED (never reported), as in c01.rs: equality between numerically equal values of different representation
//! (Integer 1 / Number 1.0 / "1") — GRL_SYNTAX.md "Type Coercion" suggests they are equal, the derived `==` says they are not.
//! The relational witnesses (negation, symmetry) skip nothing.
use rust_rule_engine::{ActionType, Condition, ConditionGroup, EngineConfig, Facts, KnowledgeBase, Operator, Rule, RustRuleEngine, Value};
use std::collections::HashMap;
use std::sync::{Arc, Mutex};

fn guarded(secs: u64, f: fn() -> (bool, String)) -> (bool, String) {
    let (tx, rx) = std::sync::mpsc::channel();
    std::thread::spawn(move || {
        let r = std::panic::catch_unwind(f);
        let _ = tx.send(r);
    });
    match rx.recv_timeout(std::time::Duration::from_secs(secs)) {
        Ok(Ok(r)) => r,
        Ok(Err(_)) => (true, "panicked".to_string()),
        Err(_) => (true, format!("did not return within {} s", secs)),
    }
}

const OPS: [(Operator, &str); 12] = [
    (Operator::Equal, "=="),
    (Operator::NotEqual, "!="),
    (Operator::GreaterThan, ">"),
    (Operator::GreaterThanOrEqual, ">="),
    (Operator::LessThan, "<"),
    (Operator::LessThanOrEqual, "<="),
    (Operator::Contains, "contains"),
    (Operator::NotContains, "not_contains"),
    (Operator::StartsWith, "startsWith"),
    (Operator::EndsWith, "endsWith"),
    (Operator::Matches, "matches"),
    (Operator::In, "in"),
];

fn s(x: &str) -> Value {
    Value::String(x.to_string())
}
fn obj(pairs: Vec<(&str, Value)>) -> Value {
    let mut m = HashMap::new();
    for (k, v) in pairs {
        m.insert(k.to_string(), v);
    }
    Value::Object(m)
}

/// the pool's strings and what std's documented `f64::from_str` grammar makes of them (sign? digits [. digits] [e sign? digits] |
/// inf | infinity | nan, case-insensitive, no surrounding blanks) — written out by hand, not computed with parse()
const STRINGS: [(&str, Option<f64>); 14] = [
    ("", None),
    ("a", None),
    ("ab", None),
    ("B", None),
    ("ba", None),
    ("null", None),
    ("a*", None),
    ("1", Some(1.0)),
    ("1.5", Some(1.5)),
    ("-1", Some(-1.0)),
    ("1e1", Some(10.0)),
    (" 1", None),
    ("inf", Some(f64::INFINITY)),
    ("NaN", Some(f64::NAN)),
];

fn pool() -> Vec<Value> {
    let mut p: Vec<Value> = STRINGS.iter().map(|(t, _)| s(t)).collect();
    for x in [0i64, 1, -1, 10] {
        p.push(Value::Integer(x));
    }
    for x in [0.0f64, -0.0, 1.0, 1.5, f64::NAN, f64::INFINITY] {
        p.push(Value::Number(x));
    }
    p.push(Value::Boolean(true));
    p.push(Value::Boolean(false));
    p.push(Value::Null);
    p.push(Value::Array(vec![]));
    p.push(Value::Array(vec![Value::Integer(1), s("a"), Value::Null, Value::Number(1.5), Value::Boolean(true)]));
    // same length, one element differs (element-wise equality of arrays)
    p.push(Value::Array(vec![Value::Integer(1), s("ab"), Value::Null, Value::Number(1.5), Value::Boolean(true)]));
    p.push(Value::Array(vec![s("null"), Value::Array(vec![])]));
    p.push(obj(vec![("k", Value::Integer(1))]));
    p.push(obj(vec![("k", Value::Integer(2))]));
    p.push(obj(vec![]));
    p.push(Value::Expression("a".to_string()));
    p
}

fn show(v: &Value) -> String {
    match v {
        Value::String(x) => format!("String({:?})", x),
        Value::Integer(x) => format!("Integer({})", x),
        Value::Number(x) => format!("Number({:?})", x),
        Value::Boolean(x) => format!("Boolean({})", x),
        Value::Null => "Null".to_string(),
        Value::Array(xs) => format!("Array[{}]", xs.iter().map(show).collect::<Vec<_>>().join(", ")),
        Value::Expression(e) => format!("Expression({:?})", e),
        Value::Object(m) => {
            let mut ks: Vec<_> = m.iter().map(|(k, v)| format!("{}: {}", k, show(v))).collect();
            ks.sort();
            format!("Object{{{}}}", ks.join(", "))
        }
    }
}

// ------------------------------------------------------------------------------------------------------------------------
// the documented table, re-stated without the crate's helpers and without std's string search / parse
// ------------------------------------------------------------------------------------------------------------------------
fn num(v: &Value) -> Option<f64> {
    match v {
        Value::Integer(i) => Some(*i as f64),
        Value::Number(n) => Some(*n),
        Value::String(t) => STRINGS.iter().find(|(x, _)| x == t).expect("pool string").1,
        _ => None,
    }
}
fn same(a: &Value, b: &Value) -> bool {
    match (a, b) {
        (Value::String(x), Value::String(y)) | (Value::Expression(x), Value::Expression(y)) => x.chars().collect::<Vec<_>>() == y.chars().collect::<Vec<_>>(),
        (Value::Number(x), Value::Number(y)) => x == y,
        (Value::Integer(x), Value::Integer(y)) => x == y,
        (Value::Boolean(x), Value::Boolean(y)) => x == y,
        (Value::Null, Value::Null) => true,
        (Value::Array(x), Value::Array(y)) => x.len() == y.len() && x.iter().zip(y.iter()).all(|(p, q)| same(p, q)),
        (Value::Object(x), Value::Object(y)) => x.len() == y.len() && x.iter().all(|(k, v)| y.get(k).map(|w| same(v, w)).unwrap_or(false)),
        _ => false,
    }
}
fn kind(v: &Value) -> u8 {
    match v {
        Value::String(_) => 0,
        Value::Number(_) => 1,
        Value::Integer(_) => 2,
        Value::Boolean(_) => 3,
        Value::Array(_) => 4,
        Value::Object(_) => 5,
        Value::Null => 6,
        Value::Expression(_) => 7,
    }
}
/// same number in two representations (incl. inside arrays of equal length): the documents disagree with each other => skipped
fn equality_unclear(a: &Value, b: &Value) -> bool {
    match (a, b) {
        (Value::Array(x), Value::Array(y)) => x.len() == y.len() && x.iter().zip(y.iter()).any(|(p, q)| equality_unclear(p, q)),
        _ => {
            if kind(a) != kind(b) {
                if let (Some(x), Some(y)) = (num(a), num(b)) {
                    return x == y || (x.is_nan() && y.is_nan());
                }
            }
            false
        }
    }
}
fn null_like(v: &Value) -> bool {
    match v {
        Value::Null => true,
        Value::String(t) => t.chars().collect::<Vec<_>>() == ['n', 'u', 'l', 'l'],
        _ => false,
    }
}
fn chars(t: &str) -> Vec<char> {
    t.chars().collect()
}
fn sub_at(h: &[char], n: &[char], at: usize) -> bool {
    at + n.len() <= h.len() && (0..n.len()).all(|k| h[at + k] == n[k])
}
fn contains(h: &str, n: &str) -> bool {
    let (h, n) = (chars(h), chars(n));
    (0..=h.len()).any(|at| sub_at(&h, &n, at))
}
fn starts(h: &str, n: &str) -> bool {
    sub_at(&chars(h), &chars(n), 0)
}
fn ends(h: &str, n: &str) -> bool {
    let (h, n) = (chars(h), chars(n));
    n.len() <= h.len() && sub_at(&h, &n, h.len() - n.len())
}
fn strs<'a>(l: &'a Value, r: &'a Value) -> Option<(&'a str, &'a str)> {
    match (l, r) {
        (Value::String(a), Value::String(b)) => Some((a.as_str(), b.as_str())),
        _ => None,
    }
}
/// Some(truth) / None = skipped
fn table(op: &Operator, l: &Value, r: &Value) -> Option<bool> {
    match op {
        Operator::Equal | Operator::NotEqual => {
            let eq = if matches!(l, Value::Null) || matches!(r, Value::Null) {
                null_like(l) == null_like(r)
            } else {
                if equality_unclear(l, r) {
                    return None;
                }
                same(l, r)
            };
            Some(if *op == Operator::Equal { eq } else { !eq })
        }
        Operator::GreaterThan | Operator::GreaterThanOrEqual | Operator::LessThan | Operator::LessThanOrEqual => Some(match (num(l), num(r)) {
            (Some(a), Some(b)) => match op {
                Operator::GreaterThan => a > b,
                Operator::GreaterThanOrEqual => a >= b,
                Operator::LessThan => a < b,
                _ => a <= b,
            },
            _ => false,
        }),
        Operator::Contains | Operator::Matches => Some(strs(l, r).map(|(a, b)| contains(a, b)).unwrap_or(false)),
        Operator::NotContains => Some(strs(l, r).map(|(a, b)| !contains(a, b)).unwrap_or(false)),
        Operator::StartsWith => Some(strs(l, r).map(|(a, b)| starts(a, b)).unwrap_or(false)),
        Operator::EndsWith => Some(strs(l, r).map(|(a, b)| ends(a, b)).unwrap_or(false)),
        Operator::In => match r {
            Value::Array(items) => {
                if items.iter().any(|it| equality_unclear(l, it)) {
                    None
                } else {
                    Some(items.iter().any(|it| same(it, l)))
                }
            }
            _ => Some(false),
        },
    }
}

// ------------------------------------------------------------------------------------------------------------------------
// (1) the whole table, directly on Operator::evaluate
// ------------------------------------------------------------------------------------------------------------------------
fn c01_operator_documented_table_inner() -> (bool, String) {
    let p = pool();
    let (mut n, mut skipped) = (0, 0);
    for l in &p {
        for r in &p {
            for (op, name) in OPS.iter() {
                match table(op, l, r) {
                    None => skipped += 1,
                    Some(expect) => {
                        n += 1;
                        let got = op.evaluate(l, r);
                        if got != expect {
                            return (true, format!("Operator::evaluate: {} {} {} = {}, documented meaning {}", show(l), name, show(r), got, expect));
                        }
                    }
                }
            }
        }
    }
    (false, format!("{} (left, operator, right) triples over a pool of {} values incl. numeric-looking strings, NaN, -0.0, null, arrays, objects ({} skipped: same number in two representations)", n, p.len(), skipped))
}
fn c01_operator_documented_table() -> (bool, String) {
    guarded(60, c01_operator_documented_table_inner)
}

// ------------------------------------------------------------------------------------------------------------------------
// (2) relations that do not depend on any table: nothing skipped
// ------------------------------------------------------------------------------------------------------------------------
fn c01_operator_negations_inner() -> (bool, String) {
    let p = pool();
    let mut n = 0;
    for l in &p {
        for r in &p {
            n += 1;
            let (eq, ne) = (Operator::Equal.evaluate(l, r), Operator::NotEqual.evaluate(l, r));
            if ne == eq {
                return (true, format!("{} == {} is {} and {} != {} is {}: != is not the negation of ==", show(l), show(r), eq, show(l), show(r), ne));
            }
            if eq != Operator::Equal.evaluate(r, l) {
                return (true, format!("{} == {} is {} but {} == {} is {}: equality is not symmetric", show(l), show(r), eq, show(r), show(l), !eq));
            }
            let (c, nc) = (Operator::Contains.evaluate(l, r), Operator::NotContains.evaluate(l, r));
            if strs(l, r).is_some() {
                if c == nc {
                    return (true, format!("{} contains {} is {} and not_contains is {}: not the negation on two strings", show(l), show(r), c, nc));
                }
            } else {
                for (op, name) in OPS[6..11].iter() {
                    if op.evaluate(l, r) {
                        return (true, format!("{} {} {} is true although a side is not a string", show(l), name, show(r)));
                    }
                }
            }
            if matches!(l, Value::Null) || matches!(r, Value::Null) {
                for (op, name) in OPS[2..11].iter() {
                    if op.evaluate(l, r) {
                        return (true, format!("{} {} {} is true: a comparison against null / a missing field must be false", show(l), name, show(r)));
                    }
                }
            }
            if !matches!(r, Value::Array(_)) && Operator::In.evaluate(l, r) {
                return (true, format!("{} in {} is true although the right side is not an array", show(l), show(r)));
            }
        }
    }
    (false, format!("{} ordered pairs: != is the negation of ==, == symmetric, not_contains the negation of contains on strings, string operators false on non-strings, every ordering / string operator false against null, `in` false on non-arrays", n))
}
fn c01_operator_negations() -> (bool, String) {
    guarded(60, c01_operator_negations_inner)
}

// ------------------------------------------------------------------------------------------------------------------------
// (3) the same table through the ENGINE: rule `when T.l <op> <literal>` fires iff the table says true
// ------------------------------------------------------------------------------------------------------------------------
fn c01_engine_documented_table_inner() -> (bool, String) {
    let p = pool();
    let (mut n, mut skipped) = (0, 0);
    // left operands: every pool value stored in T.l; null additionally as a MISSING field (T.zz)
    let mut lefts: Vec<(Value, &str)> = p.iter().map(|v| (v.clone(), "T.l")).collect();
    lefts.push((Value::Null, "T.zz"));
    for (l, field) in &lefts {
        if matches!(l, Value::Expression(_)) {
            continue; // an expression is not a stored fact value
        }
        let mut cases: Vec<(String, ConditionGroup, bool)> = vec![];
        for r in &p {
            if matches!(r, Value::Expression(_)) {
                continue; // a right-hand expression is evaluated by the engine first (covered by c01.rs)
            }
            for (op, name) in OPS.iter() {
                match table(op, l, r) {
                    None => skipped += 1,
                    Some(expect) => {
                        let leaf = ConditionGroup::single(Condition::new(field.to_string(), op.clone(), r.clone()));
                        cases.push((format!("{} {} {}", field, name, show(r)), leaf.clone(), expect));
                        cases.push((format!("!({} {} {})", field, name, show(r)), ConditionGroup::not(leaf), !expect));
                    }
                }
            }
        }
        let kb = KnowledgeBase::new("c01b");
        for (k, c) in cases.iter().enumerate() {
            let rule = Rule::new(format!("r{}", k), c.1.clone(), vec![ActionType::Set { field: format!("o{}", k), value: Value::Integer(1) }]);
            if let Err(e) = kb.add_rule(rule) {
                return (true, format!("add_rule failed for {}: {}", c.0, e));
            }
        }
        let mut engine = RustRuleEngine::with_config(kb, EngineConfig { max_cycles: 1, timeout: None, enable_stats: false, debug_mode: false });
        let facts = Facts::new();
        let stored = if *field == "T.l" { obj(vec![("l", l.clone())]) } else { obj(vec![("other", Value::Integer(7))]) };
        facts.set("T", stored);
        let fired: Arc<Mutex<Vec<String>>> = Arc::new(Mutex::new(vec![]));
        let f2 = fired.clone();
        if let Err(e) = engine.execute_with_callback(&facts, move |name, _| f2.lock().unwrap().push(name.to_string())) {
            return (true, format!("execute returned Err({}) with T.l = {}", e, show(l)));
        }
        let fired: std::collections::HashSet<String> = fired.lock().unwrap().iter().cloned().collect();
        for (k, c) in cases.iter().enumerate() {
            n += 1;
            let ran = facts.get(&format!("o{}", k)) == Some(Value::Integer(1));
            let called = fired.contains(&format!("r{}", k));
            if ran != c.2 || called != c.2 {
                let what = if *field == "T.l" { format!("facts T = {{l: {}}}", show(l)) } else { "facts T = {other: 7} (T.zz is missing)".to_string() };
                return (true, format!("{}; rule `when {} then o = 1`, one pass: action ran = {}, fired callback = {}, documented meaning of the condition: {}", what, c.0, ran, called, c.2));
            }
        }
    }
    (false, format!("{} rules `T.l op literal` and `!(T.l op literal)` (every pool value as fact and as literal, null also as a missing field, 12 operators; {} skipped)", n, skipped))
}
fn c01_engine_documented_table() -> (bool, String) {
    guarded(120, c01_engine_documented_table_inner)
}

pub fn witnesses() -> Vec<crate::W> {
    vec![
        ("c01_operator_documented_table", c01_operator_documented_table),
        ("c01_operator_negations", c01_operator_negations),
        ("c01_engine_documented_table", c01_engine_documented_table),
    ]
}
