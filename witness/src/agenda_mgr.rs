//! C02 witnesses around agenda focus / lock-on-active.  Wire into main.rs with `mod agenda_mgr;` + `all.extend(agenda_mgr::witnesses());`.
//! The managers themselves (src/engine/agenda.rs) are proved in unit agenda_mgr; these histories go through the engine's
//! ActivateAgendaGroup plumbing (src/engine/engine.rs), which applied every activation twice: once immediately and once more
//! from the workflow engine's queue at the next synchronisation point.
use rust_rule_engine::{ActionType, Condition, ConditionGroup, Facts, KnowledgeBase, Operator, Rule, RustRuleEngine, Value};
use std::sync::{Arc, Mutex};

fn always() -> ConditionGroup {
    ConditionGroup::single(Condition::new("go".to_string(), Operator::Equal, Value::Boolean(true)))
}

fn run(engine: &mut RustRuleEngine) -> Vec<String> {
    let facts = Facts::new();
    facts.set("go", Value::Boolean(true));
    let log: Arc<Mutex<Vec<String>>> = Arc::new(Mutex::new(vec![]));
    let l2 = log.clone();
    engine.execute_with_callback(&facts, move |name, _| l2.lock().unwrap().push(name.to_string())).unwrap();
    let v = log.lock().unwrap().clone();
    v
}

/// one ActivateAgendaGroup("G") action; the lock-on-active rule R of group G must fire at most once for that activation
fn c02_lock_on_active_fires_twice_for_one_activation() -> (bool, String) {
    let kb = KnowledgeBase::new("kb");
    kb.add_rule(
        Rule::new("A".into(), always(), vec![ActionType::ActivateAgendaGroup { group: "G".into() }]).with_salience(10).with_no_loop(true),
    )
    .unwrap();
    kb.add_rule(
        Rule::new("R".into(), always(), vec![ActionType::Log { message: "R".into() }])
            .with_agenda_group("G".into())
            .with_lock_on_active(true),
    )
    .unwrap();
    let mut engine = RustRuleEngine::new(kb);
    let fired = run(&mut engine);
    let n = fired.iter().filter(|x| x.as_str() == "R").count();
    (n > 1, format!("rules A(MAIN, salience 10, no-loop, action ActivateAgendaGroup G), R(group G, lock-on-active); one execute: fired {:?} (R {} times)", fired, n))
}

/// activate_agenda_group("G"); set_agenda_focus("H"): the focused group is H, so only H's rule may fire
fn c02_stale_queued_activation_overrides_later_focus() -> (bool, String) {
    let kb = KnowledgeBase::new("kb");
    kb.add_rule(Rule::new("InG".into(), always(), vec![]).with_agenda_group("G".into()).with_no_loop(true)).unwrap();
    kb.add_rule(Rule::new("InH".into(), always(), vec![]).with_agenda_group("H".into()).with_no_loop(true)).unwrap();
    let mut engine = RustRuleEngine::new(kb);
    engine.activate_agenda_group("G".to_string());
    engine.set_agenda_focus("H");
    let before = engine.get_active_agenda_group().to_string();
    let fired = run(&mut engine);
    let bad = before == "H" && fired.iter().any(|x| x == "InG");
    (bad, format!("activate_agenda_group(G); set_agenda_focus(H); focused group before execute = {}; fired {:?}", before, fired))
}

pub fn witnesses() -> Vec<crate::W> {
    vec![
        ("c02_lock_on_active_fires_twice_for_one_activation", c02_lock_on_active_fires_twice_for_one_activation),
        ("c02_stale_queued_activation_overrides_later_focus", c02_stale_queued_activation_overrides_later_focus),
    ]
}
