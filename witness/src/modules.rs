//! C18 witnesses (module imports / visibility) against the real crate, public API only.
//! Register in main.rs with `mod modules;` and `all.extend(modules::witnesses());`.
use rust_rule_engine::engine::module::{ExportList, ImportType, ModuleManager, ReExport};

const NAMES: [&str; 4] = ["A", "B", "C", "MAIN"];

/// declared import edges among existing modules (what the property speaks about)
fn declared_edges(m: &ModuleManager) -> Vec<(String, String)> {
    let mut out = Vec::new();
    for n in m.list_modules() {
        for d in m.get_module(&n).unwrap().get_imports() {
            out.push((n.clone(), d.from_module.clone()));
        }
    }
    out
}

/// some module reaches itself through one or more declared imports
fn has_cycle(edges: &[(String, String)]) -> bool {
    let nodes: Vec<&String> = edges.iter().map(|e| &e.0).collect();
    for s in nodes {
        let mut seen: Vec<&String> = Vec::new();
        let mut work: Vec<&String> = edges.iter().filter(|e| &e.0 == s).map(|e| &e.1).collect();
        while let Some(x) = work.pop() {
            if x == s {
                return true;
            }
            if !seen.contains(&x) {
                seen.push(x);
                work.extend(edges.iter().filter(|e| &e.0 == x).map(|e| &e.1));
            }
        }
    }
    false
}

/// fixed history: A imports B; delete B  =>  visibility queries on the existing module A must still answer
fn c18_delete_then_query() -> (bool, String) {
    let mut m = ModuleManager::new();
    m.create_module("A").unwrap();
    m.create_module("B").unwrap();
    m.import_from("A", "B", ImportType::AllRules, "*").unwrap();
    m.delete_module("B").unwrap();
    let r = m.is_rule_visible("r", "A");
    let l = m.get_visible_rules("A");
    (
        r.is_err() || l.is_err(),
        format!("create A,B; A imports B; delete B: is_rule_visible(r, A) = {:?}, get_visible_rules(A) = {:?} (expected Ok)", r, l),
    )
}

/// fixed history: A imports B; delete B; create B; B imports A  =>  no cycle among the declarations
fn c18_delete_recreate_cycle() -> (bool, String) {
    let mut m = ModuleManager::new();
    m.create_module("A").unwrap();
    m.create_module("B").unwrap();
    m.import_from("A", "B", ImportType::AllRules, "*").unwrap();
    m.delete_module("B").unwrap();
    m.create_module("B").unwrap();
    let r = m.import_from("B", "A", ImportType::AllRules, "*");
    let e = declared_edges(&m);
    (has_cycle(&e), format!("create A,B; A imports B; delete B; create B; B imports A -> {:?}; declared imports {:?}", r, e))
}

/// fixed history: re-export.  get_visible_rules lists only rules OWNED by the source module, is_rule_visible also accepts
/// re-exported ones (and any name matching a re-export pattern): the two answers differ.
fn c18_listing_vs_query_reexport() -> (bool, String) {
    let mut m = ModuleManager::new();
    m.create_module("BASE").unwrap();
    m.create_module("MIDDLE").unwrap();
    m.create_module("TOP").unwrap();
    m.get_module_mut("BASE").unwrap().add_rule("base-rule1");
    m.export_all_from("BASE", ExportList::All).unwrap();
    m.import_from_with_reexport(
        "MIDDLE",
        "BASE",
        ImportType::AllRules,
        "*",
        Some(ReExport { patterns: vec!["base-*".to_string()], transitive: true }),
    )
    .unwrap();
    m.import_from("TOP", "MIDDLE", ImportType::AllRules, "*").unwrap();
    let q = m.is_rule_visible("base-rule1", "TOP").unwrap();
    let l = m.get_visible_rules("TOP").unwrap();
    let ghost = m.is_rule_visible("base-no-such-rule", "TOP").unwrap();
    (
        q != l.contains(&"base-rule1".to_string()) || ghost,
        format!(
            "BASE owns+exports base-rule1; MIDDLE imports BASE re-exporting base-*; TOP imports MIDDLE: is_rule_visible(base-rule1, TOP) = {}, get_visible_rules(TOP) = {:?}, is_rule_visible(base-no-such-rule, TOP) = {}",
            q, l, ghost
        ),
    )
}

/// exhaustive: every sequence of up to 4 (thorough tier: 5) operations (create / delete / import) over the module names A, B, C, MAIN:
/// declared imports acyclic after every step, refused import changes nothing, is_rule_visible answers for every existing module
fn c18_exhaustive_short_sequences() -> (bool, String) {
    #[derive(Clone, Copy, Debug)]
    enum Op {
        Create(usize),
        Delete(usize),
        Import(usize, usize),
    }
    let mut ops = Vec::new();
    for a in 0..3 {
        ops.push(Op::Create(a));
        ops.push(Op::Delete(a));
    }
    for a in 0..4 {
        for b in 0..4 {
            ops.push(Op::Import(a, b));
        }
    }
    let max_len = crate::bound(4, 5);
    let mut tried = 0u64;
    let mut stack: Vec<Vec<Op>> = vec![vec![]];
    while let Some(seq) = stack.pop() {
        let mut m = ModuleManager::new();
        for (step, op) in seq.iter().enumerate() {
            let before = declared_edges(&m);
            let res_err = match *op {
                Op::Create(a) => m.create_module(NAMES[a]).is_err(),
                Op::Delete(a) => m.delete_module(NAMES[a]).is_err(),
                Op::Import(a, b) => {
                    let e = m.import_from(NAMES[a], NAMES[b], ImportType::AllRules, "*").is_err();
                    if e && declared_edges(&m) != before {
                        return (true, format!("{:?}: refused import at step {} changed the declarations", seq, step));
                    }
                    e
                }
            };
            let _ = res_err;
            if step + 1 == seq.len() {
                let e = declared_edges(&m);
                if has_cycle(&e) {
                    return (true, format!("{:?}: declared imports {:?} contain a cycle", seq, e));
                }
                for n in m.list_modules() {
                    if let Err(x) = m.is_rule_visible("r", &n) {
                        return (true, format!("{:?}: is_rule_visible(r, {}) = Err({:?}) on an existing module", seq, n, x));
                    }
                }
            }
        }
        tried += 1;
        if seq.len() < max_len {
            for op in &ops {
                let mut s = seq.clone();
                s.push(*op);
                stack.push(s);
            }
        }
    }
    (false, format!("{} sequences of length <= {} over create/delete/import on A,B,C,MAIN", tried, max_len))
}

pub fn witnesses() -> Vec<crate::W> {
    vec![
        ("c18_delete_then_query", c18_delete_then_query as fn() -> (bool, String)),
        ("c18_delete_recreate_cycle", c18_delete_recreate_cycle),
        ("c18_listing_vs_query_reexport", c18_listing_vs_query_reexport),
        ("c18_exhaustive_short_sequences", c18_exhaustive_short_sequences),
    ]
}
