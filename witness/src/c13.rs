//! C13 — "Watermarks never move backwards; with bounded out-of-orderness the watermark after each on-time event equals the largest
//! timestamp seen minus the allowed delay, not below zero.  An event is treated as late exactly when its timestamp is below the
//! current watermark, every offered event ends up exactly once as accepted, dropped or side-output according to the configured
//! strategy, and the late-data statistics add up to the events offered."  (src/streaming/watermark.rs)
//! Register in main.rs with `mod c13;` and `all.extend(c13::witnesses());`.
//!
//! The reference is written from the statement: an event is LATE iff ts < watermark read just before it is offered; a late event is
//! dropped (Drop), accepted iff watermark - ts <= max_lateness and dropped otherwise (AllowedLateness), side-output (SideOutput),
//! accepted (RecomputeWindows, counted as allowed); an on-time event is accepted and, with BoundedOutOfOrder{d}, leaves the
//! watermark at max(ts seen) saturating-minus d.
//!
//!   c13_stream_search      WatermarkedStream::add_event: every timestamp sequence of length <= 5 over {0,2,5,9,10,20}
//!                          x {MonotonicAscending, BoundedOutOfOrder 0 / 4 / 12 ms} x {Drop, AllowedLateness 0 / 3 / 100 ms, SideOutput,
//!                          RecomputeWindows}
//!   c13_generator_search   WatermarkGenerator::process_event / is_late on its own (it is handed late events too): length <= 5
//!   c13_handler_search     LateDataHandler::handle_late_event on its own: every sequence of <= 3 (timestamp, watermark) pairs
use rust_rule_engine::streaming::event::StreamEvent;
use rust_rule_engine::streaming::watermark::{LateDataHandler, LateDataStrategy, LateEventDecision, Watermark, WatermarkGenerator, WatermarkStrategy, WatermarkedStream};
use rust_rule_engine::types::Value;
use std::collections::HashMap;
use std::time::Duration;

const DOM: [u64; 6] = [0, 2, 5, 9, 10, 20];

fn ev(i: usize, ts: u64) -> StreamEvent {
    let mut data = HashMap::new();
    data.insert("i".to_string(), Value::Integer(i as i64));
    let mut e = StreamEvent::with_timestamp("E", data, "w", ts);
    e.id = format!("e{}", i);
    e
}

#[derive(Clone, Copy, Debug, PartialEq)]
enum Wm {
    Monotonic,
    Bounded(u64),
}

impl Wm {
    fn make(self) -> WatermarkStrategy {
        match self {
            Wm::Monotonic => WatermarkStrategy::MonotonicAscending,
            Wm::Bounded(d) => WatermarkStrategy::BoundedOutOfOrder { max_delay: Duration::from_millis(d) },
        }
    }
}

#[derive(Clone, Copy, Debug, PartialEq)]
enum Late {
    Drop,
    Allowed(u64),
    Side,
    Recompute,
}

impl Late {
    fn make(self) -> LateDataStrategy {
        match self {
            Late::Drop => LateDataStrategy::Drop,
            Late::Allowed(l) => LateDataStrategy::AllowedLateness { max_lateness: Duration::from_millis(l) },
            Late::Side => LateDataStrategy::SideOutput,
            Late::Recompute => LateDataStrategy::RecomputeWindows,
        }
    }
}

const WMS: [Wm; 4] = [Wm::Monotonic, Wm::Bounded(0), Wm::Bounded(4), Wm::Bounded(12)];
const LATES: [Late; 6] = [Late::Drop, Late::Allowed(0), Late::Allowed(3), Late::Allowed(100), Late::Side, Late::Recompute];

#[derive(Clone, Copy, Debug, PartialEq)]
enum Fate {
    Accepted,
    Dropped,
    SideOutput,
}

/// what the statement says happens to a LATE event under a strategy; the bool: does it count as "allowed" in the statistics
fn late_fate(s: Late, ts: u64, wm: u64) -> (Fate, bool) {
    match s {
        Late::Drop => (Fate::Dropped, false),
        Late::Allowed(l) => {
            if wm - ts <= l {
                (Fate::Accepted, true)
            } else {
                (Fate::Dropped, false)
            }
        }
        Late::Side => (Fate::SideOutput, false),
        Late::Recompute => (Fate::Accepted, true),
    }
}

fn sequences(max_len: usize, f: &mut dyn FnMut(&[u64]) -> bool) {
    // shorter sequences first, so a reported sequence is a shortest one
    for len in 1..=max_len {
        let total = DOM.len().pow(len as u32);
        for code in 0..total {
            let mut c = code;
            let mut s = Vec::with_capacity(len);
            for _ in 0..len {
                s.push(DOM[c % DOM.len()]);
                c /= DOM.len();
            }
            if f(&s) {
                return;
            }
        }
    }
}

fn ids(evs: &[StreamEvent]) -> Vec<String> {
    let mut v: Vec<String> = evs.iter().map(|e| format!("{}@{}", e.id, e.metadata.timestamp)).collect();
    v.sort();
    v
}

fn c13_stream_search() -> (bool, String) {
    let max_len = crate::bound(5, 7);
    let mut tried = 0u64;
    let mut found: Option<String> = None;
    for wm in WMS {
        for late in LATES {
            sequences(max_len, &mut |s| {
                tried += 1;
                let mut st = WatermarkedStream::new(wm.make(), late.make());
                let head = format!("WatermarkedStream({:?}, {:?}) offered timestamps {:?}", wm, late, s);
                let (mut acc, mut dropped, mut side, mut allowed, mut total_late): (Vec<String>, usize, Vec<String>, usize, usize) = (vec![], 0, vec![], 0, 0);
                let mut max_seen = 0u64;
                for (i, &ts) in s.iter().enumerate() {
                    let before = st.current_watermark().timestamp;
                    let n_events = st.events().len();
                    let n_side = st.side_output().len();
                    let _ = st.add_event(ev(i, ts));
                    let after = st.current_watermark().timestamp;
                    if after < before {
                        found = Some(format!("{}: event #{} (ts {}) moved the watermark back from {} to {}", head, i, ts, before, after));
                        return true;
                    }
                    let is_late = ts < before;
                    let tag = format!("e{}@{}", i, ts);
                    let fate = if is_late {
                        total_late += 1;
                        let (f, a) = late_fate(late, ts, before);
                        if a {
                            allowed += 1;
                        }
                        f
                    } else {
                        max_seen = max_seen.max(ts);
                        if let Wm::Bounded(d) = wm {
                            if after != max_seen.saturating_sub(d) {
                                found = Some(format!("{}: after on-time event #{} (ts {}) the watermark is {}, largest timestamp seen {} minus delay {} is {}", head, i, ts, after, max_seen, d, max_seen.saturating_sub(d)));
                                return true;
                            }
                        }
                        Fate::Accepted
                    };
                    match fate {
                        Fate::Accepted => acc.push(tag),
                        Fate::Dropped => dropped += 1,
                        Fate::SideOutput => side.push(tag),
                    }
                    // where did it actually go?  (by growth of the two lists)
                    let got = (st.events().len() - n_events.min(st.events().len()), st.side_output().len() - n_side.min(st.side_output().len()));
                    let want = match fate {
                        Fate::Accepted => (1, 0),
                        Fate::Dropped => (0, 0),
                        Fate::SideOutput => (0, 1),
                    };
                    if got != want || st.events().len() < n_events || st.side_output().len() < n_side {
                        found = Some(format!(
                            "{}: event #{} (ts {}, watermark before it {}: {}) must be {:?}; events() grew by {} and side_output() by {}",
                            head,
                            i,
                            ts,
                            before,
                            if is_late { "late" } else { "on time" },
                            fate,
                            got.0,
                            got.1
                        ));
                        return true;
                    }
                    let stats = st.late_stats();
                    let got_stats = (stats.total_late, stats.dropped, stats.allowed, stats.side_output);
                    let want_stats = (total_late, dropped, allowed, side.len());
                    let offered = i + 1;
                    if got_stats != want_stats || stats.total_late != stats.dropped + stats.allowed + stats.side_output || st.events().len() + stats.dropped + stats.side_output != offered {
                        found = Some(format!(
                            "{}: after event #{} (ts {}, watermark before it {}) late_stats (total_late, dropped, allowed, side_output) = {:?}, expected {:?}; accepted {} + dropped {} + side-output {} vs {} offered",
                            head,
                            i,
                            ts,
                            before,
                            got_stats,
                            want_stats,
                            st.events().len(),
                            stats.dropped,
                            stats.side_output,
                            offered
                        ));
                        return true;
                    }
                }
                // every offered event exactly once, in the right place
                let mut a = acc.clone();
                a.sort();
                let mut sd = side.clone();
                sd.sort();
                if ids(st.events()) != a || ids(st.side_output()) != sd {
                    found = Some(format!("{}: accepted {:?} (expected {:?}), side output {:?} (expected {:?})", head, ids(st.events()), a, ids(st.side_output()), sd));
                    return true;
                }
                false
            });
            if found.is_some() {
                return (true, found.unwrap());
            }
        }
    }
    (false, format!("{} (strategy pair, timestamp sequence of length <= {} over {:?}) runs: watermark monotone and = max - delay, lateness, destination and statistics as stated after every event", tried, max_len, DOM))
}

fn c13_generator_search() -> (bool, String) {
    let max_len = crate::bound(5, 8);
    let mut tried = 0u64;
    let mut found: Option<String> = None;
    for wm in WMS {
        sequences(max_len, &mut |s| {
            tried += 1;
            let mut g = WatermarkGenerator::new(wm.make());
            let head = format!("WatermarkGenerator({:?}) process_event on timestamps {:?}", wm, s);
            let mut max_seen = 0u64;
            for (i, &ts) in s.iter().enumerate() {
                let before = g.current_watermark().timestamp;
                let e = ev(i, ts);
                if g.is_late(&e) != (ts < before) || g.current_watermark().is_late(ts) != (ts < before) {
                    found = Some(format!("{}: before event #{} the watermark is {}; is_late(ts {}) = {}", head, i, before, ts, g.is_late(&e)));
                    return true;
                }
                g.process_event(&e);
                max_seen = max_seen.max(ts);
                let after = g.current_watermark().timestamp;
                if after < before {
                    found = Some(format!("{}: event #{} (ts {}) moved the watermark back from {} to {}", head, i, ts, before, after));
                    return true;
                }
                if let Wm::Bounded(d) = wm {
                    if after != max_seen.saturating_sub(d) {
                        found = Some(format!("{}: after event #{} (ts {}) the watermark is {}, largest timestamp seen {} minus delay {} is {}", head, i, ts, after, max_seen, d, max_seen.saturating_sub(d)));
                        return true;
                    }
                }
            }
            false
        });
        if found.is_some() {
            return (true, found.unwrap());
        }
    }
    (false, format!("{} (strategy, timestamp sequence of length <= {} over {:?}) runs: watermark monotone, = max - delay (bounded), is_late == (ts < watermark)", tried, max_len, DOM))
}

fn c13_handler_search() -> (bool, String) {
    // (timestamp, watermark) with timestamp < watermark: lateness 1, 3, 4, 5, 10, 100, 101
    const CASES: [(u64, u64); 8] = [(9, 10), (7, 10), (6, 10), (5, 10), (0, 10), (0, 100), (0, 101), (2, 5)];
    let max_len = crate::bound(3, 6);
    let mut tried = 0u64;
    for late in LATES {
        let n = CASES.len();
        for len in 1..=max_len {
            for code in 0..n.pow(len as u32) {
                tried += 1;
                let mut c = code;
                let mut h = LateDataHandler::new(late.make());
                let (mut dropped, mut allowed, mut side): (usize, usize, Vec<String>) = (0, 0, vec![]);
                let mut log: Vec<String> = Vec::new();
                for i in 0..len {
                    let (ts, wm) = CASES[c % n];
                    c /= n;
                    let d = h.handle_late_event(ev(i, ts), &Watermark::new(wm));
                    let (fate, a) = late_fate(late, ts, wm);
                    if a {
                        allowed += 1;
                    }
                    match fate {
                        Fate::Dropped => dropped += 1,
                        Fate::SideOutput => side.push(format!("e{}@{}", i, ts)),
                        Fate::Accepted => {}
                    }
                    let (got, carried) = match &d {
                        LateEventDecision::Drop => (Fate::Dropped, None),
                        LateEventDecision::Process(e) | LateEventDecision::Recompute(e) => (Fate::Accepted, Some(e.id.clone())),
                        LateEventDecision::SideOutput(e) => (Fate::SideOutput, Some(e.id.clone())),
                    };
                    log.push(format!("handle(ts {}, watermark {}) -> {}", ts, wm, match &d {
                        LateEventDecision::Drop => "Drop",
                        LateEventDecision::Process(_) => "Process",
                        LateEventDecision::SideOutput(_) => "SideOutput",
                        LateEventDecision::Recompute(_) => "Recompute",
                    }));
                    let right_variant = match (late, &d) {
                        (Late::Recompute, LateEventDecision::Recompute(_)) => true,
                        (Late::Recompute, _) => false,
                        (_, LateEventDecision::Recompute(_)) => false,
                        _ => true,
                    };
                    let s = h.stats();
                    let mut so = ids(h.side_output());
                    so.sort();
                    let mut want_so = side.clone();
                    want_so.sort();
                    if got != fate
                        || !right_variant
                        || carried.map_or(false, |id| id != format!("e{}", i))
                        || (s.total_late, s.dropped, s.allowed, s.side_output) != (i + 1, dropped, allowed, side.len())
                        || s.total_late != s.dropped + s.allowed + s.side_output
                        || so != want_so
                    {
                        return (
                            true,
                            format!(
                                "LateDataHandler({:?}): {}; expected {:?} for the last one; stats (total_late, dropped, allowed, side_output) = {:?}, expected {:?}; side output {:?}",
                                late,
                                log.join("; "),
                                fate,
                                (s.total_late, s.dropped, s.allowed, s.side_output),
                                (i + 1, dropped, allowed, side.len()),
                                so
                            ),
                        );
                    }
                }
            }
        }
    }
    (false, format!("{} (strategy, sequence of <= {} late events with lateness 1..101) runs: decision and statistics as stated", tried, max_len))
}

pub fn witnesses() -> Vec<crate::W> {
    vec![("c13_stream_search", c13_stream_search), ("c13_generator_search", c13_generator_search), ("c13_handler_search", c13_handler_search)]
}
