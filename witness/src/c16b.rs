//! C16, the beta (join-key) index and the memoised evaluator: "a join-key lookup returns exactly the live facts carrying that key.
//! A memoised condition evaluation equals direct evaluation for every node and fact set".  (The alpha index and the conclusion
//! index are in alpha_index.rs.)  Register in main.rs with `mod c16b;` and `all.extend(c16b::witnesses());`.
//!
//!   c16_beta_index_search        BetaMemoryIndex: all sequences of <= 6 add / remove over 3 fact slots and 4 fact shapes
//!                                (3 join keys + a fact without the join field), a lookup of every key after every step
//!   c16_memo_search              MemoizedEvaluator: all sequences of <= 4 evaluate calls over 6 nodes x 8 fact sets whose renderings
//!                                are pairwise different (float-free, no two values that print alike): memoised == direct
//!   c16_memo_key_collision       fact sets that PRINT alike but differ in type ({x: Integer(1)} vs {x: String("1")}, ..): the memo
//!                                key is a hash of FactValue::as_str(), which drops the type
use rust_rule_engine::rete::AlphaNode;
use rust_rule_engine::rete::facts::{FactValue, TypedFacts};
use rust_rule_engine::rete::memoization::MemoizedEvaluator;
use rust_rule_engine::rete::network::ReteUlNode;
use rust_rule_engine::rete::optimization::BetaMemoryIndex;

// ---------------------------------------------------------------------------------------------------------------- beta index

/// fact shapes: 0..3 carry join key Integer(1) / Integer(2) / String("1"); 3 has no join field at all
fn shape(k: usize) -> TypedFacts {
    let mut f = TypedFacts::new();
    match k {
        0 => f.set("user_id", FactValue::Integer(1)),
        1 => f.set("user_id", FactValue::Integer(2)),
        2 => f.set("user_id", FactValue::String("1".to_string())),
        _ => f.set("other", FactValue::Integer(1)),
    }
    f
}

/// the lookup string of a join key is its Debug rendering (that is how `add` files a fact; see the crate's own test)
fn keys() -> Vec<String> {
    vec![format!("{:?}", FactValue::Integer(1)), format!("{:?}", FactValue::Integer(2)), format!("{:?}", FactValue::String("1".to_string())), "Integer(3)".to_string()]
}

/// Model of the beta memory the index serves: 3 slots, each empty or holding a fact.  Operations:
///   add(slot, shape)   only into an EMPTY slot (a memory never files two facts under one index) - slots are filled in any order,
///                      so indexes arrive non-ascending and a freed low slot is reused after a deletion, possibly with another key
///   remove(slot)       only of an occupied slot, with the fact that is stored there
/// (a fact without the join field may be added and removed like any other: it must never show up).  After the last step of every
/// history (shorter histories first, so every prefix has been checked before) lookup(k), read as a set of slot numbers and checked
/// for duplicates, must be exactly the occupied slots whose fact carries k; a key nobody carries must give nothing.
fn c16_beta_index_search() -> (bool, String) {
    const SLOTS: usize = 3;
    // op codes: 0..12 add(slot = c / 4, shape = c % 4); 12..15 remove(slot)
    const NOPS: usize = 15;
    let ks = keys();
    let shapes: Vec<TypedFacts> = (0..4).map(shape).collect();
    let mut tried = 0u64;

    fn describe(s: &[usize]) -> String {
        let mut slots: [Option<usize>; 3] = [None; 3];
        let mut log = Vec::new();
        for &op in s {
            if op < 12 {
                slots[op / 4] = Some(op % 4);
                log.push(format!("add({:?}, {})", shape(op % 4).get_all(), op / 4));
            } else {
                let sh = slots[op - 12].take().unwrap_or(3);
                log.push(format!("remove({:?}, {})", shape(sh).get_all(), op - 12));
            }
        }
        log.join("; ")
    }

    // valid histories of exactly `len` operations, generated on the model alone
    fn gen(len: usize, s: &mut Vec<usize>, slots: &mut [Option<usize>; 3], out: &mut dyn FnMut(&[usize], &[Option<usize>; 3]) -> bool) -> bool {
        if s.len() == len {
            return out(s, slots);
        }
        for op in 0..NOPS {
            let slot = if op < 12 { op / 4 } else { op - 12 };
            let old = slots[slot];
            if (op < 12) != old.is_none() {
                continue;
            }
            slots[slot] = if op < 12 { Some(op % 4) } else { None };
            s.push(op);
            let stop = gen(len, s, slots, out);
            s.pop();
            slots[slot] = old;
            if stop {
                return true;
            }
        }
        false
    }

    let mut found: Option<String> = None;
    let max_len = crate::bound(6, 8);
    for len in 1..=max_len {
        let mut check = |s: &[usize], slots: &[Option<usize>; 3]| -> bool {
            let mut idx = BetaMemoryIndex::new("user_id".to_string());
            let mut cur: [Option<usize>; SLOTS] = [None; SLOTS];
            for &op in s {
                if op < 12 {
                    idx.add(&shapes[op % 4], op / 4);
                    cur[op / 4] = Some(op % 4);
                } else if let Some(sh) = cur[op - 12].take() {
                    idx.remove(&shapes[sh], op - 12);
                }
            }
            for (ki, k) in ks.iter().enumerate() {
                tried += 1;
                let got: Vec<usize> = idx.lookup(k).to_vec();
                let mut got_sorted = got.clone();
                got_sorted.sort();
                let exp: Vec<usize> = (0..SLOTS).filter(|&i| ki < 3 && slots[i] == Some(ki)).collect();
                if got_sorted != exp {
                    found = Some(format!("BetaMemoryIndex(\"user_id\"): {}; lookup({:?}) = {:?}, live facts carrying the key: {:?}", describe(s), k, got, exp));
                    return true;
                }
            }
            false
        };
        if gen(len, &mut Vec::new(), &mut [None; 3], &mut check) {
            break;
        }
    }
    match found {
        Some(d) => (true, d),
        None => (false, format!("{} lookups (4 keys after every valid add/remove history of <= {} operations over 3 slots x 4 fact shapes): each returned exactly the live facts carrying the key", tried, max_len)),
    }
}

// ------------------------------------------------------------------------------------------------------------------ memoisation

fn alpha(field: &str, op: &str, value: &str) -> ReteUlNode {
    ReteUlNode::UlAlpha(AlphaNode { field: field.to_string(), operator: op.to_string(), value: value.to_string() })
}

fn nodes() -> Vec<ReteUlNode> {
    vec![
        alpha("x", "==", "1"),
        alpha("x", "==", "a"),
        alpha("x", ">", "1"),
        alpha("y", "==", "true"),
        ReteUlNode::UlAnd(Box::new(alpha("x", "==", "1")), Box::new(alpha("y", "==", "true"))),
        ReteUlNode::UlNot(Box::new(alpha("x", "==", "1"))),
        ReteUlNode::UlOr(Box::new(alpha("x", "==", "2")), Box::new(alpha("y", "==", "2"))),
    ]
}

fn facts_of(pairs: &[(&str, FactValue)]) -> TypedFacts {
    let mut f = TypedFacts::new();
    for (k, v) in pairs {
        f.set(*k, v.clone());
    }
    f
}

/// fact sets whose renderings differ pairwise (no two values print alike; no floats): differences in one value, in which key
/// carries the value, in an extra key, and the empty set
fn plain_fact_sets() -> Vec<TypedFacts> {
    use FactValue::*;
    vec![
        facts_of(&[]),
        facts_of(&[("x", Integer(1))]),
        facts_of(&[("x", Integer(2))]),
        facts_of(&[("y", Integer(1))]),
        facts_of(&[("x", Integer(1)), ("y", Boolean(true))]),
        facts_of(&[("x", Integer(1)), ("y", Boolean(false))]),
        facts_of(&[("x", Integer(2)), ("y", Integer(2))]),
        facts_of(&[("x", String("a".to_string())), ("y", Boolean(true))]),
        facts_of(&[("x", Integer(12))]),
        facts_of(&[("x", Integer(1)), ("y", Integer(2))]),
    ]
}

fn show(f: &TypedFacts) -> String {
    let mut v: Vec<String> = f.get_all().iter().map(|(k, v)| format!("{}: {:?}", k, v)).collect();
    v.sort();
    format!("{{{}}}", v.join(", "))
}

/// every sequence of <= 3 evaluate calls over (node, fact set) on ONE evaluator (so that an entry cached for one node / fact set is
/// there when another is asked), each compared with direct evaluation.
fn c16_memo_search() -> (bool, String) {
    let ns = nodes();
    let fs = plain_fact_sets();
    let calls: Vec<(usize, usize)> = (0..ns.len()).flat_map(|n| (0..fs.len()).map(move |f| (n, f))).collect();
    let direct: Vec<Vec<bool>> = ns.iter().map(|n| fs.iter().map(|f| n.evaluate_typed(f)).collect()).collect();
    let mut tried = 0u64;
    let run = |seq: &[(usize, usize)]| -> Option<String> {
        let mut ev = MemoizedEvaluator::new();
        let mut log: Vec<String> = Vec::new();
        for &(n, f) in seq.iter() {
            let got = ev.evaluate(&ns[n], &fs[f], |nn, ff| nn.evaluate_typed(ff));
            log.push(format!("evaluate({:?}, {}) = {}", ns[n], show(&fs[f]), got));
            if got != direct[n][f] {
                return Some(format!("one MemoizedEvaluator: {} but direct evaluation gives {}", log.join("; "), direct[n][f]));
            }
        }
        None
    };
    // all sequences of length 1 and 2; length 3 of the shape a, b, a (b any) and a, a, b
    for &a in &calls {
        tried += 1;
        if let Some(d) = run(&[a]) {
            return (true, d);
        }
        for &b in &calls {
            tried += 1;
            if let Some(d) = run(&[a, b]) {
                return (true, d);
            }
            tried += 2;
            if let Some(d) = run(&[a, b, a]).or_else(|| run(&[a, a, b])) {
                return (true, d);
            }
        }
    }
    // thorough tier: every sequence of 3 calls
    if crate::thorough() {
        for &a in &calls {
            for &b in &calls {
                for &c in &calls {
                    tried += 1;
                    if let Some(d) = run(&[a, b, c]) {
                        return (true, d);
                    }
                }
            }
        }
    }
    // clear() in between: still equal (second call: the first 12 calls; thorough tier: every call)
    let n_second = crate::bound(12, calls.len());
    for &a in &calls {
        for &b in &calls[..n_second] {
            let mut ev = MemoizedEvaluator::new();
            let r1 = ev.evaluate(&ns[a.0], &fs[a.1], |n, f| n.evaluate_typed(f));
            ev.clear();
            let r2 = ev.evaluate(&ns[b.0], &fs[b.1], |n, f| n.evaluate_typed(f));
            let r3 = ev.evaluate(&ns[a.0], &fs[a.1], |n, f| n.evaluate_typed(f));
            tried += 1;
            if (r1, r2, r3) != (direct[a.0][a.1], direct[b.0][b.1], direct[a.0][a.1]) {
                return (true, format!("evaluate({:?}, {}) = {}; clear(); evaluate({:?}, {}) = {}; first call again = {}; direct: {}, {}", ns[a.0], show(&fs[a.1]), r1, ns[b.0], show(&fs[b.1]), r2, r3, direct[a.0][a.1], direct[b.0][b.1]));
            }
        }
    }
    (false, format!("{} call sequences ({}) over {} nodes x {} fact sets with pairwise different renderings: memoised == direct every time", tried, if crate::thorough() { "every sequence of <= 3 calls; a, clear, b, a" } else { "every sequence of <= 2 calls; a,b,a and a,a,b; a, clear, b, a" }, ns.len(), fs.len()))
}

/// NEW FINDING (reproduces on the current tree): the memo key hashes FactValue::as_str(), which renders Integer(1) and String("1")
/// (and Boolean(true) / String("true"), Null / String("null"), an array / the string of its rendering) alike, so the second fact
/// set gets the first one's cached answer.
fn c16_memo_key_collision() -> (bool, String) {
    use FactValue::*;
    let pairs: Vec<(ReteUlNode, TypedFacts, TypedFacts)> = vec![
        (alpha("x", "==", "1"), facts_of(&[("x", Integer(1))]), facts_of(&[("x", String("1".to_string()))])),
        (alpha("x", "==", "true"), facts_of(&[("x", Boolean(true))]), facts_of(&[("x", String("true".to_string()))])),
        (alpha("x", "==", "null"), facts_of(&[("x", Null)]), facts_of(&[("x", String("null".to_string()))])),
        (alpha("x", "contains", "1"), facts_of(&[("x", Array(vec![Integer(1)]))]), facts_of(&[("x", String("[Integer(1)]".to_string()))])),
    ];
    let mut found: Vec<std::string::String> = Vec::new();
    for (node, f1, f2) in &pairs {
        for (a, b) in [(f1, f2), (f2, f1)] {
            let mut ev = MemoizedEvaluator::new();
            let r1 = ev.evaluate(node, a, |n, f| n.evaluate_typed(f));
            let r2 = ev.evaluate(node, b, |n, f| n.evaluate_typed(f));
            let d2 = node.evaluate_typed(b);
            if r2 != d2 {
                found.push(format!("node {:?}: evaluate on {} = {}; then evaluate on {} = {} (memoised) but direct evaluation = {}", node, show(a), r1, show(b), r2, d2));
            }
        }
    }
    match found.first() {
        Some(first) => (true, format!("{} [{} of {} look-alike orderings differ]", first, found.len(), 2 * pairs.len())),
        None => (false, format!("{} pairs of fact sets that print alike but differ in type, both orders: memoised == direct", pairs.len())),
    }
}

pub fn witnesses() -> Vec<crate::W> {
    vec![
        ("c16_beta_index_search", c16_beta_index_search),
        ("c16_memo_search", c16_memo_search),
        ("c16_memo_key_collision", c16_memo_key_collision),
    ]
}
