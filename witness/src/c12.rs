use rust_rule_engine::streaming::event::StreamEvent;
use rust_rule_engine::streaming::window::{TimeWindow, WindowType};
use std::collections::HashMap;
use std::time::Duration;

fn ev(ts: u64) -> StreamEvent {
    StreamEvent::with_timestamp("E", HashMap::new(), "w", ts)
}

/// fixed history (was a defect, fixed in fbbb759): record 100, 10 (late), 120 into a 50 ms sliding window
fn c12_late_event_retained() -> (bool, String) {
    let mut w = TimeWindow::new(WindowType::Sliding, Duration::from_millis(50), 0, 100);
    w.record(ev(100));
    w.record(ev(10));
    w.record(ev(120));
    let ts: Vec<u64> = w.events().iter().map(|e| e.metadata.timestamp).collect();
    let bad = ts.iter().any(|t| *t < w.start_time);
    (bad, format!("record 100,10,120 dur=50ms: retained={:?} start_time={}", ts, w.start_time))
}

/// bounded search: all timestamp sequences of length <= 5 (thorough tier: 7) over {0,10,..,60}, durations {1,20,50}, caps {1,2,100}:
/// after each record into a sliding window the retained events must be exactly the newest `cap` of the
/// recorded events that are not older than ts - dur, in arrival order.
fn c12_record_search() -> (bool, String) {
    let dom = [0u64, 10, 20, 30, 40, 50, 60];
    let max_len = crate::bound(5, 7);
    let mut tried = 0u64;
    for dur in [1u64, 20, 50] {
        for cap in [1usize, 2, 100] {
            let mut seq = vec![0usize; 0];
            // iterative enumeration of sequences up to length 5
            let mut stack: Vec<Vec<u64>> = vec![vec![]];
            while let Some(s) = stack.pop() {
                if !s.is_empty() {
                    tried += 1;
                    let mut w = TimeWindow::new(WindowType::Sliding, Duration::from_millis(dur), 0, cap);
                    let mut all: Vec<u64> = Vec::new();
                    for &t in &s {
                        w.record(ev(t));
                        all.push(t);
                        let start = t.saturating_sub(dur);
                        // reference: events retained so far evolve step by step
                    }
                    // recompute reference incrementally
                    let mut kept: Vec<u64> = Vec::new();
                    for &t in &s {
                        kept.push(t);
                        let start = t.saturating_sub(dur);
                        kept.retain(|x| *x >= start);
                        while kept.len() > cap {
                            kept.remove(0);
                        }
                    }
                    let got: Vec<u64> = w.events().iter().map(|e| e.metadata.timestamp).collect();
                    let last = *s.last().unwrap();
                    if got != kept || w.start_time != last.saturating_sub(dur) || w.end_time != last + 1 {
                        return (true, format!("sliding dur={}ms cap={} record {:?}: retained={:?} expected={:?} span=[{},{})", dur, cap, s, got, kept, w.start_time, w.end_time));
                    }
                }
                if s.len() < max_len {
                    for &t in &dom {
                        let mut n = s.clone();
                        n.push(t);
                        stack.push(n);
                    }
                }
            }
            let _ = &mut seq;
        }
    }
    (false, format!("{} sequences of <= {} timestamps over {:?} x durations 1/20/50 ms x caps 1/2/100", tried, max_len, dom))
}

/// add_event: accepted iff start <= ts < end; newest `cap` kept
fn c12_add_event_search() -> (bool, String) {
    let steps = crate::bound(4, 8) as u64;
    let mut tried = 0;
    for start in [0u64, 10] {
        for dur in [1u64, 10, 25] {
            for cap in [1usize, 2, 10] {
                for a in 0..steps {
                    for b in 0..steps {
                        for c in 0..steps {
                            let s = [start + a * dur / 2, start + b * dur / 2 + 1, (start + c * dur).saturating_sub(1)];
                            let mut w = TimeWindow::new(WindowType::Tumbling, Duration::from_millis(dur), start, cap);
                            let mut kept: Vec<u64> = vec![];
                            for &t in &s {
                                tried += 1;
                                let acc = w.add_event(ev(t));
                                let exp = t >= start && t < start + dur;
                                if exp {
                                    kept.push(t);
                                    while kept.len() > cap {
                                        kept.remove(0);
                                    }
                                }
                                let got: Vec<u64> = w.events().iter().map(|e| e.metadata.timestamp).collect();
                                if acc != exp || got != kept || w.contains_timestamp(t) != exp {
                                    return (true, format!("window [{},{}) cap={} add {:?}: at ts={} accepted={} expected={} retained={:?} expected={:?}", start, start + dur, cap, s, t, acc, exp, got, kept));
                                }
                            }
                        }
                    }
                }
            }
        }
    }
    (false, format!("{} adds ({} positions per event)", tried, steps))
}

pub fn witnesses() -> Vec<crate::W> {
    vec![
        ("c12_late_event_retained", c12_late_event_retained),
        ("c12_record_search", c12_record_search),
        ("c12_add_event_search", c12_add_event_search),
    ]
}
