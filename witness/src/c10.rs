use rust_rule_engine::engine::facts::Facts;
use rust_rule_engine::types::Value;
use std::collections::HashMap;

/// fixed history (was a defect, fixed in e0925ab): begin; begin; set k; commit; rollback
fn c10_commit_discards_inner_records() -> (bool, String) {
    let f = Facts::new();
    f.set("k", Value::Integer(1));
    f.begin_undo_frame();
    f.begin_undo_frame();
    f.set("k", Value::Integer(2));
    f.commit_undo_frame();
    f.rollback_undo_frame();
    let v = f.get("k");
    (v != Some(Value::Integer(1)), format!("set k=1; begin; begin; set k=2; commit; rollback: k = {:?} (expected Integer(1))", v))
}

#[derive(Clone, Copy, Debug)]
enum Op {
    Begin,
    Commit,
    Rollback,
    Set(usize, i64),
    SetNested(usize, i64),
    Remove(usize),
}

const KEYS: [&str; 2] = ["a", "b"];

/// bounded search: every sequence of <= 6 (thorough tier: 7) operations over 2 keys against the obvious reference
/// (a stack of whole-store snapshots: rollback restores the snapshot taken at the matching begin).
fn c10_undo_search() -> (bool, String) {
    let ops = [
        Op::Begin, Op::Commit, Op::Rollback, Op::Set(0, 1), Op::Set(0, 2), Op::Set(1, 1), Op::SetNested(0, 3), Op::Remove(0), Op::Remove(1),
    ];
    let max_len = crate::bound(6, 7);
    let mut tried = 0u64;
    let mut stack: Vec<Vec<Op>> = vec![vec![]];
    while let Some(s) = stack.pop() {
        if !s.is_empty() {
            tried += 1;
            let f = Facts::new();
            let mut model: HashMap<String, Value> = HashMap::new();
            let mut snaps: Vec<HashMap<String, Value>> = Vec::new();
            for op in &s {
                match *op {
                    Op::Begin => {
                        f.begin_undo_frame();
                        snaps.push(model.clone());
                    }
                    Op::Commit => {
                        f.commit_undo_frame();
                        snaps.pop();
                    }
                    Op::Rollback => {
                        f.rollback_undo_frame();
                        if let Some(m) = snaps.pop() {
                            model = m;
                        }
                    }
                    Op::Set(k, v) => {
                        f.set(KEYS[k], Value::Integer(v));
                        model.insert(KEYS[k].to_string(), Value::Integer(v));
                    }
                    Op::SetNested(k, v) => {
                        // top-level path: same as set
                        let _ = f.set_nested(KEYS[k], Value::Integer(v));
                        model.insert(KEYS[k].to_string(), Value::Integer(v));
                    }
                    Op::Remove(k) => {
                        f.remove(KEYS[k]);
                        model.remove(KEYS[k]);
                    }
                }
                for k in KEYS {
                    if f.get(k) != model.get(k).cloned() {
                        return (true, format!("ops {:?}: key {} = {:?}, expected {:?}", s, k, f.get(k), model.get(k)));
                    }
                }
            }
        }
        if s.len() < max_len {
            for op in &ops {
                let mut n = s.clone();
                n.push(*op);
                stack.push(n);
            }
        }
    }
    (false, format!("{} sequences of <= {} operations over {} operations on 2 keys", tried, max_len, ops.len()))
}

pub fn witnesses() -> Vec<crate::W> {
    vec![
        ("c10_commit_discards_inner_records", c10_commit_discards_inner_records),
        ("c10_undo_search", c10_undo_search),
    ]
}
