//! C19 — "Parallel rule execution reports the same set of fired rules and the same evaluated and fired counts as evaluating the same
//! enabled rules one by one on the same facts, for every thread count, chunking and thread schedule, and it always returns."
//! (src/engine/parallel.rs: ParallelRuleEngine::execute_parallel)
//! Register in main.rs with `mod c19;` and `all.extend(c19::witnesses());`.
//!
//! BOUNDED and on ONE schedule per run (whatever the OS does): this witness cannot say anything about "every thread schedule".  It
//! stays where the result does not depend on the schedule: condition-only rules over integer facts whose actions are empty or a `Set`
//! of a field no condition reads (the parallel engine does not execute `Set` at all), so no rule changes what another rule reads.
//!
//! Reference = the statement: the ENABLED rules, each evaluated once on the initial facts by a tiny evaluator of this file over its own
//! condition syntax (integer comparisons, and / or / not, a missing field is false); fired set = the enabled rules whose condition is
//! true, evaluated count = number of enabled rules, fired count = size of the fired set.
//!
//!   c19_parallel_equals_one_by_one   rule sets of 1..8 rules (3 salience values with ties, 6 conditions, enabled / disabled, with and
//!                                    without a harmless action; all 36 one-rule sets, a fixed-seed sample of the larger ones), two fact
//!                                    sets, max_threads 1..6 x min_rules_per_thread 1..4 x parallelism on / off: execute_parallel returns
//!                                    Ok without panicking, total_rules_evaluated / total_rules_fired and the multiset of
//!                                    (rule name, fired) of execution_contexts equal the reference
//!   c19_levels_descending            the same runs (a smaller sample): the reported contexts come in descending salience (the mechanism
//!                                    named by the property: "salience levels processed in descending order")
use rust_rule_engine::engine::parallel::{ParallelConfig, ParallelRuleEngine};
use rust_rule_engine::{ActionType, Condition, ConditionGroup, Facts, KnowledgeBase, Operator, Rule, Value};
use std::sync::mpsc;
use std::time::Duration;

/// the condition syntax of this witness (its meaning is `holds` below, not the crate's evaluator)
#[derive(Clone, Debug)]
enum C {
    Gt(&'static str, i64),
    Lt(&'static str, i64),
    Eq(&'static str, i64),
    And(Box<C>, Box<C>),
    Or(Box<C>, Box<C>),
    Not(Box<C>),
}

fn holds(c: &C, facts: &[(&'static str, i64)]) -> bool {
    let get = |f: &str| facts.iter().find(|(k, _)| *k == f).map(|(_, v)| *v);
    match c {
        C::Gt(f, k) => get(f).map(|v| v > *k).unwrap_or(false),
        C::Lt(f, k) => get(f).map(|v| v < *k).unwrap_or(false),
        C::Eq(f, k) => get(f).map(|v| v == *k).unwrap_or(false),
        C::And(a, b) => holds(a, facts) && holds(b, facts),
        C::Or(a, b) => holds(a, facts) || holds(b, facts),
        C::Not(a) => !holds(a, facts),
    }
}

fn to_group(c: &C) -> ConditionGroup {
    let leaf = |f: &str, op: Operator, k: i64| ConditionGroup::single(Condition::new(f.to_string(), op, Value::Integer(k)));
    match c {
        C::Gt(f, k) => leaf(f, Operator::GreaterThan, *k),
        C::Lt(f, k) => leaf(f, Operator::LessThan, *k),
        C::Eq(f, k) => leaf(f, Operator::Equal, *k),
        C::And(a, b) => ConditionGroup::and(to_group(a), to_group(b)),
        C::Or(a, b) => ConditionGroup::or(to_group(a), to_group(b)),
        C::Not(a) => ConditionGroup::not(to_group(a)),
    }
}

fn pool() -> Vec<C> {
    vec![
        C::Gt("x", 3),
        C::Gt("x", 7),
        C::And(Box::new(C::Gt("x", 3)), Box::new(C::Lt("y", 8))),
        C::Or(Box::new(C::Gt("x", 7)), Box::new(C::Eq("y", 10))),
        C::Not(Box::new(C::Gt("x", 7))),
        C::Eq("nope", 1),
    ]
}

const SALIENCES: [i32; 3] = [10, 0, -3];
// (the third fact set is EMPTY: a negated condition holds on it, and nothing else does)
const FACTS: [&[(&str, i64)]; 3] = [&[("x", 5), ("y", 10)], &[("x", 9), ("y", 2)], &[]];

/// one rule of a set: (salience index, condition index, enabled, has a harmless action)
type RSpec = (usize, usize, bool, bool);

fn lcg(s: &mut u64) -> u64 {
    *s = s.wrapping_mul(6364136223846793005).wrapping_add(1442695040888963407);
    *s >> 33
}

fn rule_sets(per_size: usize) -> Vec<Vec<RSpec>> {
    let np = pool().len();
    let mut out = Vec::new();
    // every one-rule set
    for s in 0..SALIENCES.len() {
        for c in 0..np {
            for e in [true, false] {
                out.push(vec![(s, c, e, c % 2 == 0)]);
            }
        }
    }
    let mut seed = 0x5eed_c19u64;
    for n in 2..=8usize {
        for k in 0..per_size {
            let mut set = Vec::new();
            for _ in 0..n {
                let s = (lcg(&mut seed) % SALIENCES.len() as u64) as usize;
                let c = (lcg(&mut seed) % np as u64) as usize;
                // mostly enabled; every fourth sampled set has all rules on one salience level (one big level: most chunks)
                let e = lcg(&mut seed) % 5 != 0;
                let a = lcg(&mut seed) % 2 == 0;
                set.push((if k % 4 == 3 { 0 } else { s }, c, e, a));
            }
            out.push(set);
        }
    }
    out
}

struct Run {
    evaluated: usize,
    fired: usize,
    /// (rule name, fired, salience) in reported order
    contexts: Vec<(String, bool, i32)>,
}

fn run(set: &[RSpec], facts_i: usize, threads: usize, min_rules: usize, on: bool) -> Result<Run, String> {
    let p = pool();
    let kb = KnowledgeBase::new("c19");
    for (i, (s, c, e, a)) in set.iter().enumerate() {
        let actions = if *a { vec![ActionType::Set { field: format!("out.r{}", i), value: Value::Integer(1) }] } else { vec![] };
        let mut r = Rule::new(format!("R{}", i), to_group(&p[*c]), actions).with_salience(SALIENCES[*s]);
        r.enabled = *e;
        kb.add_rule(r).map_err(|e| format!("add_rule failed: {e}"))?;
    }
    let facts = Facts::new();
    for (k, v) in FACTS[facts_i].iter() {
        facts.set(k, Value::Integer(*v));
    }
    let engine = ParallelRuleEngine::new(ParallelConfig { enabled: on, max_threads: threads, min_rules_per_thread: min_rules, dependency_analysis: false });
    let res = quietly(|| std::panic::catch_unwind(std::panic::AssertUnwindSafe(|| engine.execute_parallel(&kb, &facts, false))));
    match res {
        Err(_) => Err("execute_parallel PANICKED".to_string()),
        Ok(Err(e)) => Err(format!("execute_parallel returned Err({e})")),
        Ok(Ok(r)) => Ok(Run {
            evaluated: r.total_rules_evaluated,
            fired: r.total_rules_fired,
            contexts: r.execution_contexts.iter().map(|c| (c.rule.name.clone(), c.fired, c.rule.salience)).collect(),
        }),
    }
}

fn describe(set: &[RSpec], facts_i: usize, threads: usize, min_rules: usize, on: bool) -> String {
    let p = pool();
    let rules: Vec<String> = set
        .iter()
        .enumerate()
        .map(|(i, (s, c, e, a))| format!("R{}[salience {} {} when {:?}{}]", i, SALIENCES[*s], if *e { "enabled" } else { "DISABLED" }, p[*c], if *a { " then Set out" } else { "" }))
        .collect();
    format!(
        "rules {} | facts {:?} | ParallelConfig {{ enabled: {}, max_threads: {}, min_rules_per_thread: {} }}",
        rules.join(", "),
        FACTS[facts_i],
        on,
        threads,
        min_rules
    )
}

/// runs `f` with the panic message of the process switched off when it panics (the verdict line carries the input; a worker thread's
/// panic would otherwise print a backtrace per run)
fn quietly<T>(f: impl FnOnce() -> std::thread::Result<T>) -> std::thread::Result<T> {
    static HOOK: std::sync::Mutex<()> = std::sync::Mutex::new(());
    let _g = HOOK.lock().unwrap_or_else(|e| e.into_inner());
    let prev = std::panic::take_hook();
    std::panic::set_hook(Box::new(|_| {}));
    let r = f();
    std::panic::set_hook(prev);
    r
}

/// runs `f` on a thread of its own; `true` ("did not return") when it does not finish in time
fn with_watchdog(secs: u64, f: fn() -> (bool, String)) -> (bool, String) {
    let (tx, rx) = mpsc::channel();
    std::thread::spawn(move || {
        let _ = tx.send(f());
    });
    match rx.recv_timeout(Duration::from_secs(secs)) {
        Ok(r) => r,
        Err(_) => (true, format!("the search did not return within {secs} s (execute_parallel hangs on some input of the enumeration)")),
    }
}

fn search_equals() -> (bool, String) {
    let p = pool();
    let sets = rule_sets(crate::bound(25, 150));
    let mut runs = 0usize;
    for set in &sets {
        for facts_i in 0..FACTS.len() {
            // the reference: each ENABLED rule evaluated once on the initial facts
            let mut expect: Vec<(String, bool)> =
                set.iter().enumerate().filter(|(_, r)| r.2).map(|(i, r)| (format!("R{}", i), holds(&p[r.1], FACTS[facts_i]))).collect();
            expect.sort();
            let exp_eval = expect.len();
            let exp_fired = expect.iter().filter(|x| x.1).count();
            for threads in 1..=6usize {
                for min_rules in 1..=4usize {
                    for on in [true, false] {
                        runs += 1;
                        let r = match run(set, facts_i, threads, min_rules, on) {
                            Ok(r) => r,
                            Err(e) => return (true, format!("{e} on {}", describe(set, facts_i, threads, min_rules, on))),
                        };
                        let mut got: Vec<(String, bool)> = r.contexts.iter().map(|c| (c.0.clone(), c.1)).collect();
                        got.sort();
                        if got != expect || r.evaluated != exp_eval || r.fired != exp_fired {
                            return (
                                true,
                                format!(
                                    "{} => evaluated {} fired {} contexts {:?}; one by one: evaluated {} fired {} verdicts {:?}",
                                    describe(set, facts_i, threads, min_rules, on),
                                    r.evaluated,
                                    r.fired,
                                    got,
                                    exp_eval,
                                    exp_fired,
                                    expect
                                ),
                            );
                        }
                    }
                }
            }
        }
    }
    (false, format!("{} rule sets of 1..8 rules x 3 fact sets (one empty) x max_threads 1..6 x min_rules_per_thread 1..4 x on/off = {} runs: fired set and counts equal the one-by-one evaluation (one schedule each)", sets.len(), runs))
}

fn search_order() -> (bool, String) {
    let sets = rule_sets(crate::bound(4, 20));
    let mut runs = 0usize;
    for set in &sets {
        for threads in [1usize, 2, 3, 6] {
            for min_rules in [1usize, 2, 4] {
                for on in [true, false] {
                    runs += 1;
                    let r = match run(set, 0, threads, min_rules, on) {
                        Ok(r) => r,
                        Err(e) => return (true, format!("{e} on {}", describe(set, 0, threads, min_rules, on))),
                    };
                    if r.contexts.windows(2).any(|w| w[0].2 < w[1].2) {
                        return (
                            true,
                            format!(
                                "{} => contexts (name, fired, salience) {:?}: a lower salience level is reported before a higher one",
                                describe(set, 0, threads, min_rules, on),
                                r.contexts
                            ),
                        );
                    }
                }
            }
        }
    }
    (false, format!("{} rule sets x 24 configurations = {} runs: contexts come in descending salience", sets.len(), runs))
}

fn c19_parallel_equals_one_by_one() -> (bool, String) {
    with_watchdog(120, search_equals)
}

fn c19_levels_descending() -> (bool, String) {
    with_watchdog(60, search_order)
}

pub fn witnesses() -> Vec<crate::W> {
    vec![("c19_parallel_equals_one_by_one", c19_parallel_equals_one_by_one), ("c19_levels_descending", c19_levels_descending)]
}
