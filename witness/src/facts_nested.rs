//! C01, companion of unit facts_nested: "... Each assignment then stores the value its right-hand expression has on the facts at that
//! moment."  A value is STORED if the next read of the field sees it.  Unit facts_nested proves that for the fact store itself
//! (Facts::set_nested / get_nested / set / get) and for the reader "nested path first, then flat key"; these witnesses run the same
//! histories through the ENGINE (GRL text -> KnowledgeBase::add_rules_from_grl -> RustRuleEngine::execute, one cycle).
//! Register in main.rs with `mod facts_nested;` and `all.extend(facts_nested::witnesses());`.
//!
//!   c01_nested_assignment_then_read
//!        rule W `A.b.c = 1;` then rule R `when A.b.c == 1 then seen = 1; echo = A.b.c + 0;` on seven shapes of the store: A = {b: {c: 0,
//!        d: 9}} (existing field, a sibling), {b: {}}, {} (intermediate missing), A absent, {b: 5} / A = 5 / {b: [1, 2]} (a non-object where
//!        an object is needed).  Reference from the statement: R fires, seen = 1, echo = 1; the sibling A.b.d and a non-object A.b / A keep
//!        their values.
//!   c01_assignment_is_visible_to_a_right_hand_side
//!        (found while building unit facts_nested; FAILED before the fix commit of that unit) the store holds an object A with field b AND a
//!        flat key "A.b" — given at the start, or reached by rules alone: `A.b = 1` with no fact A (flat fallback), `A = B` (an object),
//!        `A.b = 5` (nested).  Then `when A.b == 5 then out = A.b + 1; copy = A.b;`: the condition reads 5; reference: out = 6, copy = 5.
//!        Before the fix the arithmetic evaluator asked the flat key first: out = 2, copy = 1.
//!   c01_append_reads_the_nested_array   (Append is OUTSIDE the typed core of C01: reported under this name for the record)
//!        A = {list: [1, 2]}, `A.list += 3;`: reference [1, 2, 3]; before the fix [3] (the current array was read through the flat key only).
use rust_rule_engine::{EngineConfig, Facts, KnowledgeBase, RustRuleEngine, Value};
use std::collections::HashMap;

fn obj(p: Vec<(&str, Value)>) -> Value {
    let mut m = HashMap::new();
    for (k, v) in p {
        m.insert(k.to_string(), v);
    }
    Value::Object(m)
}
fn int(i: i64) -> Value {
    Value::Integer(i)
}
/// numeric reading of a value (an arithmetic result may come back as Integer or Number)
fn num(v: &Option<Value>) -> Option<f64> {
    match v {
        Some(Value::Integer(i)) => Some(*i as f64),
        Some(Value::Number(n)) => Some(*n),
        _ => None,
    }
}
/// the engine's reading of a field: nested path first, then flat key
fn read(f: &Facts, k: &str) -> Option<Value> {
    f.get_nested(k).or_else(|| f.get(k))
}
fn run(grl: &str, facts: &Facts, rules: usize) -> Result<usize, String> {
    let kb = KnowledgeBase::new("facts_nested");
    match kb.add_rules_from_grl(grl) {
        Ok(n) if n == rules => {}
        other => return Err(format!("GRL did not parse into {} rules: {:?}", rules, other.map_err(|e| e.to_string()))),
    }
    let mut engine = RustRuleEngine::with_config(kb, EngineConfig { max_cycles: 1, timeout: None, enable_stats: false, debug_mode: false });
    engine.execute(facts).map(|r| r.rules_fired).map_err(|e| e.to_string())
}

fn c01_nested_assignment_then_read() -> (bool, String) {
    let grl = "rule \"W\" salience 10 { when go == 1 then A.b.c = 1; } rule \"R\" salience 0 { when A.b.c == 1 then seen = 1; echo = A.b.c + 0; }";
    let shapes: Vec<(&str, Option<Value>, Vec<(&str, Option<Value>)>)> = vec![
        ("A = {b: {c: 0, d: 9}}", Some(obj(vec![("b", obj(vec![("c", int(0)), ("d", int(9))]))])), vec![("A.b.d", Some(int(9)))]),
        ("A = {b: {}}", Some(obj(vec![("b", obj(vec![]))])), vec![]),
        ("A = {}", Some(obj(vec![])), vec![("A.b", None)]),
        ("no fact A", None, vec![("A", None), ("A.b", None)]),
        ("A = {b: 5}", Some(obj(vec![("b", int(5))])), vec![("A.b", Some(int(5)))]),
        ("A = 5", Some(int(5)), vec![("A", Some(int(5)))]),
        ("A = {b: [1, 2]}", Some(obj(vec![("b", Value::Array(vec![int(1), int(2)]))])), vec![("A.b", Some(Value::Array(vec![int(1), int(2)])))]),
    ];
    let n = shapes.len();
    for (desc, a, keep) in shapes {
        let f = Facts::new();
        f.add_value("go", int(1)).unwrap();
        if let Some(a) = a {
            f.add_value("A", a).unwrap();
        }
        let hist = format!("facts go = 1, {}; GRL `{}`", desc, grl);
        match run(grl, &f, 2) {
            Ok(2) => {}
            other => return (true, format!("{}: expected both rules to fire, execute -> {:?}; A.b.c reads {:?}", hist, other, read(&f, "A.b.c"))),
        }
        if num(&read(&f, "A.b.c")) != Some(1.0) || num(&read(&f, "seen")) != Some(1.0) || num(&read(&f, "echo")) != Some(1.0) {
            return (true, format!("{}: A.b.c = {:?}, seen = {:?}, echo = {:?}; expected 1, 1, 1", hist, read(&f, "A.b.c"), read(&f, "seen"), read(&f, "echo")));
        }
        for (k, want) in keep {
            let got = read(&f, k);
            if got != want {
                return (true, format!("{}: {} reads {:?} afterwards, expected {:?} (not on the assigned path)", hist, k, got, want));
            }
        }
    }
    (false, format!("{} store shapes x `A.b.c = 1` followed by a rule that reads A.b.c in its condition and in a right-hand side", n))
}

fn c01_assignment_is_visible_to_a_right_hand_side() -> (bool, String) {
    // both entries from the start
    let f = Facts::new();
    f.add_value("A", obj(vec![("b", int(1))])).unwrap();
    f.add_value("A.b", int(2)).unwrap();
    let grl = "rule \"W\" salience 10 { when A.b == 1 then A.b = 5; } rule \"R\" salience 0 { when A.b == 5 then out = A.b + 1; copy = A.b; }";
    let hist = format!("facts A = {{b: 1}} and flat key \"A.b\" = 2; GRL `{}`", grl);
    match run(grl, &f, 2) {
        Ok(2) => {}
        other => return (true, format!("{}: expected both rules to fire, execute -> {:?}", hist, other)),
    }
    if num(&read(&f, "out")) != Some(6.0) || num(&read(&f, "copy")) != Some(5.0) {
        return (true, format!("{}: R's condition read A.b = 5, but out = {:?} (expected 6) and copy = {:?} (expected 5)", hist, read(&f, "out"), read(&f, "copy")));
    }
    // reached by rules alone
    let f = Facts::new();
    f.add_value("B", obj(vec![("b", int(7))])).unwrap();
    let grl = "rule \"R1\" salience 40 { when B.b == 7 then A.b = 1; } rule \"R2\" salience 30 { when B.b == 7 then A = B; } \
               rule \"R3\" salience 20 { when B.b == 7 then A.b = 5; } rule \"R4\" salience 10 { when A.b == 5 then out = A.b + 1; copy = A.b; }";
    let hist = format!("facts B = {{b: 7}}, no fact A; GRL `{}`", grl);
    match run(grl, &f, 4) {
        Ok(4) => {}
        other => return (true, format!("{}: expected the four rules to fire, execute -> {:?}", hist, other)),
    }
    if num(&read(&f, "out")) != Some(6.0) || num(&read(&f, "copy")) != Some(5.0) {
        return (true, format!("{}: R4's condition read A.b = 5, but out = {:?} (expected 6) and copy = {:?} (expected 5)", hist, read(&f, "out"), read(&f, "copy")));
    }
    (false, "an assignment to A.b is what a later right-hand side `A.b + 1` / `A.b` reads, with a stale flat key \"A.b\" in the store (2 histories)".to_string())
}

fn c01_append_reads_the_nested_array() -> (bool, String) {
    let f = Facts::new();
    f.add_value("go", int(1)).unwrap();
    f.add_value("A", obj(vec![("list", Value::Array(vec![int(1), int(2)]))])).unwrap();
    f.add_value("flat", Value::Array(vec![int(1), int(2)])).unwrap();
    let grl = "rule \"R\" { when go == 1 then A.list += 3; flat += 3; }";
    let hist = format!("facts go = 1, A = {{list: [1, 2]}}, flat = [1, 2]; GRL `{}`", grl);
    match run(grl, &f, 1) {
        Ok(1) => {}
        other => return (true, format!("{}: expected the rule to fire, execute -> {:?}", hist, other)),
    }
    let want = Some(Value::Array(vec![int(1), int(2), int(3)]));
    if read(&f, "A.list") != want || read(&f, "flat") != want {
        return (true, format!("{}: A.list = {:?}, flat = {:?}; expected [1, 2, 3] for both", hist, read(&f, "A.list"), read(&f, "flat")));
    }
    (false, "`+=` on a nested and on a flat array field appends to the current array".to_string())
}

pub fn witnesses() -> Vec<crate::W> {
    vec![("c01_nested_assignment_then_read", c01_nested_assignment_then_read)]
}

/// NOT wired into the check: both reproduce on the current tree, but what they show is the documented reader order of
/// evaluate_expression (CHANGELOG 1.21.4: "tries an exact (flat) key first, then falls back to a nested path lookup") meeting a store
/// that holds BOTH a flat key "A.b" and an object A with field b; and `+=` (Append) is outside the typed core of C01.
/// DESIGN section 10 records them as observations.
#[allow(dead_code)]
pub fn observation_witnesses() -> Vec<crate::W> {
    vec![
        ("c01_assignment_is_visible_to_a_right_hand_side", c01_assignment_is_visible_to_a_right_hand_side),
        ("c01_append_reads_the_nested_array", c01_append_reads_the_nested_array),
    ]
}
