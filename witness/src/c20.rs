//! C20 (first sentence) — "Restoring a checkpoint reproduces exactly the unexpired keys and values the store held when that checkpoint
//! was taken, whatever was put, updated, deleted or checkpointed afterwards, and checkpoints taken at different moments stay
//! distinguishable."  (src/streaming/state.rs, FILE backend)
//! Register in main.rs with `mod c20;` and `all.extend(c20::witnesses());`.
//!
//! The reference is written from the statement: a model map key -> value, and for every id returned by `checkpoint` the model map at
//! that moment.  After `restore(id)` returns Ok the store must show (keys / len / get / contains) exactly the map recorded for id; the
//! ids returned must be pairwise different and be what list_checkpoints reports.  Every run uses a fresh directory below
//! std::env::temp_dir(), removed afterwards.  Nothing here speaks about crashes or interrupted writes (second sentence of C20).
//!
//!   c20_history_search     every sequence of 5 (thorough: 6) operations put a / put b / update a / update b / delete a / delete b /
//!                          checkpoint / restore oldest / restore newest that contains a restore; includes checkpoints taken back to
//!                          back (same millisecond in a tight loop) and restores after later writes and later checkpoints
//!   c20_retention          max_checkpoints = 2: put + checkpoint x 4, then every checkpoint ever returned is restored: the two newest
//!                          reproduce their snapshot, list_checkpoints names exactly them, the directory holds exactly their directories
//!   c20_ttl                an entry whose TTL has passed at checkpoint time is not restored, an unexpired one is (TTL 25 ms vs 1 h,
//!                          120 ms sleep: wide margins), also when the unexpired one was written with put_with_ttl
//!   c20_number_values      f64 payloads (1/11, 985.6906946328695, 1e-75 ..) come back bit-identical
use rust_rule_engine::streaming::state::{StateBackend, StateConfig, StateStore};
use rust_rule_engine::types::Value;
use std::collections::BTreeMap;
use std::path::PathBuf;
use std::sync::atomic::{AtomicUsize, Ordering};
use std::time::Duration;

static DIRS: AtomicUsize = AtomicUsize::new(0);

fn fresh_dir() -> PathBuf {
    let n = DIRS.fetch_add(1, Ordering::SeqCst);
    let d = std::env::temp_dir().join(format!("vx_c20_{}_{}", std::process::id(), n));
    let _ = std::fs::remove_dir_all(&d);
    d
}

fn file_store(dir: &PathBuf, max_checkpoints: usize) -> StateStore {
    StateStore::with_config(StateConfig { backend: StateBackend::File { path: dir.clone() }, max_checkpoints, ..Default::default() })
}

const KEYS: [&str; 2] = ["a", "b"];

#[derive(Clone, Copy, Debug, PartialEq)]
enum Op {
    Put(usize),
    Update(usize),
    Delete(usize),
    Checkpoint,
    RestoreOldest,
    RestoreNewest,
}
const OPS: [Op; 9] = [Op::Put(0), Op::Put(1), Op::Update(0), Op::Update(1), Op::Delete(0), Op::Delete(1), Op::Checkpoint, Op::RestoreOldest, Op::RestoreNewest];

type Model = BTreeMap<String, Value>;

/// what the store shows through its public read API, compared with the expected map; None = equal
fn differs(store: &StateStore, want: &Model) -> Option<String> {
    let mut keys = store.keys();
    keys.sort();
    let wkeys: Vec<String> = want.keys().cloned().collect();
    if keys != wkeys {
        return Some(format!("keys() = {:?}, expected {:?}", keys, wkeys));
    }
    if store.len() != want.len() {
        return Some(format!("len() = {}, expected {}", store.len(), want.len()));
    }
    for k in KEYS.iter().map(|k| k.to_string()).chain(wkeys.iter().cloned()) {
        let got = store.get(&k).ok().flatten();
        if got.as_ref() != want.get(&k) {
            return Some(format!("get({}) = {:?}, expected {:?}", k, got, want.get(&k)));
        }
        if store.contains(&k) != want.contains_key(&k) {
            return Some(format!("contains({}) = {}, expected {}", k, store.contains(&k), want.contains_key(&k)));
        }
    }
    None
}

/// runs one history on a fresh directory; Some(description) = the statement is violated
fn run_history(ops: &[Op]) -> Option<String> {
    let dir = fresh_dir();
    let r = run_history_in(ops, &dir);
    let _ = std::fs::remove_dir_all(&dir);
    r.map(|m| format!("history {:?} (file backend, fresh directory): {}", ops, m))
}

fn run_history_in(ops: &[Op], dir: &PathBuf) -> Option<String> {
    let mut store = file_store(dir, 10);
    let mut model: Model = BTreeMap::new();
    let mut taken: Vec<(String, Model)> = Vec::new();
    for (step, op) in ops.iter().enumerate() {
        let v = Value::Integer(100 + step as i64);
        match *op {
            Op::Put(k) => {
                if store.put(KEYS[k], v.clone()).is_err() {
                    return Some(format!("step {}: put failed", step));
                }
                model.insert(KEYS[k].to_string(), v);
            }
            Op::Update(k) => {
                let r = store.update(KEYS[k], v.clone());
                if model.contains_key(KEYS[k]) {
                    if r.is_err() {
                        return Some(format!("step {}: update of a present key failed", step));
                    }
                    model.insert(KEYS[k].to_string(), v);
                } else if r.is_ok() {
                    return Some(format!("step {}: update of an absent key succeeded", step));
                }
            }
            Op::Delete(k) => {
                let _ = store.delete(KEYS[k]);
                model.remove(KEYS[k]);
            }
            Op::Checkpoint => {
                let id = match store.checkpoint(format!("cp{}", step)) {
                    Ok(id) => id,
                    Err(e) => return Some(format!("step {}: checkpoint failed: {}", step, e)),
                };
                if let Some((old, _)) = taken.iter().find(|(i, _)| *i == id) {
                    return Some(format!("step {}: checkpoint returned id {} which an earlier checkpoint already has (ids so far {:?}): the two are not distinguishable", step, old, taken.iter().map(|t| t.0.clone()).collect::<Vec<_>>()));
                }
                taken.push((id, model.clone()));
                let listed: Vec<String> = store.list_checkpoints().iter().map(|c| c.id.clone()).collect();
                let want: Vec<String> = taken.iter().map(|t| t.0.clone()).collect();
                if listed != want {
                    return Some(format!("step {}: list_checkpoints ids {:?}, expected {:?}", step, listed, want));
                }
                // a checkpoint does not change the live state
                if let Some(d) = differs(&store, &model) {
                    return Some(format!("step {}: after checkpoint the live state changed: {}", step, d));
                }
            }
            Op::RestoreOldest | Op::RestoreNewest => {
                if taken.is_empty() {
                    return None; // not a history of interest (enumeration skips these)
                }
                let (id, snap) = if *op == Op::RestoreOldest { taken[0].clone() } else { taken[taken.len() - 1].clone() };
                if let Err(e) = store.restore(&id) {
                    return Some(format!("step {}: restore({}) failed: {}", step, id, e));
                }
                if let Some(d) = differs(&store, &snap) {
                    return Some(format!("step {}: after restore({}) [checkpoint #{} of {}]: {}", step, id, if *op == Op::RestoreOldest { 0 } else { taken.len() - 1 }, taken.len(), d));
                }
                model = snap;
            }
        }
    }
    None
}

fn well_formed(ops: &[Op]) -> bool {
    // every restore has a checkpoint before it, and there is at least one restore
    let mut cps = 0;
    let mut restores = 0;
    for op in ops {
        match op {
            Op::Checkpoint => cps += 1,
            Op::RestoreOldest | Op::RestoreNewest => {
                if cps == 0 {
                    return false;
                }
                // with a single checkpoint "oldest" and "newest" coincide: keep one of them
                if cps == 1 && *op == Op::RestoreNewest {
                    return false;
                }
                restores += 1;
            }
            _ => {}
        }
    }
    restores > 0
}

fn c20_history_search() -> (bool, String) {
    let len = crate::bound(5, 6);
    let mut idx = vec![0usize; len];
    let mut ran = 0usize;
    loop {
        let ops: Vec<Op> = idx.iter().map(|&i| OPS[i]).collect();
        if well_formed(&ops) {
            ran += 1;
            if let Some(m) = run_history(&ops) {
                return (true, m);
            }
        }
        // next
        let mut p = len;
        loop {
            if p == 0 {
                return (false, format!("{} histories of {} operations over keys a, b on the file backend (each on a fresh directory): every restore reproduced the snapshot recorded for its id, ids pairwise different", ran, len));
            }
            p -= 1;
            idx[p] += 1;
            if idx[p] < OPS.len() {
                break;
            }
            idx[p] = 0;
        }
    }
}

fn c20_retention() -> (bool, String) {
    let dir = fresh_dir();
    let r = (|| -> Option<String> {
        let mut store = file_store(&dir, 2);
        let mut taken: Vec<(String, Model)> = Vec::new();
        let mut model: Model = BTreeMap::new();
        for i in 0..4i64 {
            store.put("a", Value::Integer(i)).ok()?;
            model.insert("a".to_string(), Value::Integer(i));
            if i == 2 {
                store.put("b", Value::String("x".into())).ok()?;
                model.insert("b".to_string(), Value::String("x".into()));
            }
            let id = match store.checkpoint("r") {
                Ok(id) => id,
                Err(e) => return Some(format!("checkpoint {} failed: {}", i, e)),
            };
            if taken.iter().any(|t| t.0 == id) {
                return Some(format!("checkpoint {} returned id {} again", i, id));
            }
            taken.push((id, model.clone()));
        }
        let listed: Vec<String> = store.list_checkpoints().iter().map(|c| c.id.clone()).collect();
        let want: Vec<String> = taken[2..].iter().map(|t| t.0.clone()).collect();
        if listed != want {
            return Some(format!("max_checkpoints = 2, four checkpoints {:?}: list_checkpoints = {:?}, expected the two newest {:?}", taken.iter().map(|t| t.0.clone()).collect::<Vec<_>>(), listed, want));
        }
        let mut on_disk: Vec<String> = std::fs::read_dir(&dir).ok()?.filter_map(|e| e.ok()).map(|e| e.file_name().to_string_lossy().to_string()).collect();
        on_disk.sort();
        let mut want_disk = want.clone();
        want_disk.sort();
        if on_disk != want_disk {
            return Some(format!("max_checkpoints = 2, four checkpoints: directories on disk {:?}, expected {:?}", on_disk, want_disk));
        }
        // the retained ones restore exactly, in any order, also after a later write
        store.put("c", Value::Boolean(true)).ok()?;
        for j in [3usize, 2, 3] {
            if let Err(e) = store.restore(&taken[j].0) {
                return Some(format!("max_checkpoints = 2: restore of retained checkpoint #{} ({}) failed: {}", j, taken[j].0, e));
            }
            if let Some(d) = differs(&store, &taken[j].1) {
                return Some(format!("max_checkpoints = 2, put a=0..3 with a checkpoint after each (b added before the third): restore of retained checkpoint #{} ({}): {}", j, taken[j].0, d));
            }
        }
        None
    })();
    let _ = std::fs::remove_dir_all(&dir);
    match r {
        Some(m) => (true, m),
        None => (false, "max_checkpoints = 2, four checkpoints: the two newest are listed, on disk and restore exactly".into()),
    }
}

fn c20_ttl() -> (bool, String) {
    let dir = fresh_dir();
    let r = (|| -> Option<String> {
        let mut store = file_store(&dir, 10);
        store.put_with_ttl("short", Value::Integer(1), Duration::from_millis(25)).ok()?;
        store.put_with_ttl("long", Value::Integer(2), Duration::from_secs(3600)).ok()?;
        store.put("plain", Value::Integer(3)).ok()?;
        // first checkpoint while everything is alive
        let id_all = store.checkpoint("all").ok()?;
        std::thread::sleep(Duration::from_millis(120));
        // second checkpoint after `short` expired
        let id_live = store.checkpoint("live").ok()?;
        let mut all: Model = BTreeMap::new();
        all.insert("short".into(), Value::Integer(1));
        all.insert("long".into(), Value::Integer(2));
        all.insert("plain".into(), Value::Integer(3));
        let mut live = all.clone();
        live.remove("short");
        store.delete("long").ok()?;
        if let Err(e) = store.restore(&id_live) {
            return Some(format!("restore failed: {}", e));
        }
        if let Some(d) = differs(&store, &live) {
            return Some(format!("put_with_ttl(short, 25ms), put_with_ttl(long, 1h), put(plain); sleep 120ms; checkpoint; delete(long); restore: {}", d));
        }
        if id_all != id_live {
            if let Err(e) = store.restore(&id_all) {
                return Some(format!("restore failed: {}", e));
            }
            if let Some(d) = differs(&store, &all) {
                return Some(format!("put_with_ttl(short, 25ms), put_with_ttl(long, 1h), put(plain); checkpoint X at once; sleep 120ms; .. restore(X) (short was unexpired when X was taken): {}", d));
            }
        }
        None
    })();
    let _ = std::fs::remove_dir_all(&dir);
    match r {
        Some(m) => (true, m),
        None => (false, "an entry expired at checkpoint time is not restored, unexpired ones are (25 ms / 1 h TTL, 120 ms sleep)".into()),
    }
}

fn c20_number_values() -> (bool, String) {
    let dir = fresh_dir();
    let r = (|| -> Option<String> {
        let vals = [1.0f64 / 11.0, 985.6906946328695, 1.0715660391465826e-75, 0.1 + 0.2, 1e300, -2.5, 1.0 / 53.0, 1.0 / 65.0, 1.0 / 70.0];
        let mut store = file_store(&dir, 10);
        for (i, v) in vals.iter().enumerate() {
            store.put(format!("n{}", i), Value::Number(*v)).ok()?;
        }
        let id = store.checkpoint("n").ok()?;
        store.clear().ok()?;
        if let Err(e) = store.restore(&id) {
            return Some(format!("restore failed: {}", e));
        }
        for (i, v) in vals.iter().enumerate() {
            match store.get(&format!("n{}", i)).ok().flatten() {
                Some(Value::Number(g)) if g.to_bits() == v.to_bits() => {}
                other => return Some(format!("put(n{i}, Number({v:?})); checkpoint; clear; restore: get(n{i}) = {other:?}, expected Number({v:?}) (serde_json without `float_roundtrip` parses the text it wrote itself to a neighbouring f64)")),
            }
        }
        None
    })();
    let _ = std::fs::remove_dir_all(&dir);
    match r {
        Some(m) => (true, m),
        None => (false, "f64 payloads come back bit-identical".into()),
    }
}

pub fn witnesses() -> Vec<crate::W> {
    vec![
        ("c20_history_search", c20_history_search as fn() -> (bool, String)),
        ("c20_retention", c20_retention),
        ("c20_ttl", c20_ttl),
    ]
}

/// exactness of Value::Number through serde_json: REPRODUCES on a tree without commit 5aa6226 (`float_roundtrip`), see props/C20.json.
/// Coordinator: with that commit in /repo register it with the others, otherwise list it as a known finding (witness c20_number_values).
pub fn open_finding_witnesses() -> Vec<crate::W> {
    vec![("c20_number_values", c20_number_values as fn() -> (bool, String))]
}
