use rust_rule_engine::engine::facts::Facts;
use rust_rule_engine::expression::evaluate_expression;

fn panics(input: &str) -> bool {
    let f = Facts::new();
    let s = input.to_string();
    let prev = std::panic::take_hook();
    std::panic::set_hook(Box::new(|_| {}));
    let r = std::panic::catch_unwind(move || {
        let _ = evaluate_expression(&s, &f);
    });
    std::panic::set_hook(prev);
    r.is_err()
}

/// fixed histories: inputs that made evaluate_expression panic (byte/char index confusion, unwrap on a non-numeric operand)
fn c05_expression_multibyte_and_non_numeric() -> (bool, String) {
    let inputs = ["é", "é+1", "'a'*2", "1+é", "\"é\"", "ü*ü", "a-'b'", "€/2", "'x'%'y'"];
    let bad: Vec<&str> = inputs.iter().cloned().filter(|i| panics(i)).collect();
    (!bad.is_empty(), format!("evaluate_expression panics on {:?} (tried {:?})", bad, inputs))
}

/// bounded search: every string of length <= 4 (thorough tier: 6) over a small alphabet with multi-byte characters, quotes, operators, parens
fn c05_expression_search() -> (bool, String) {
    let alpha = ["é", "1", "+", "*", "'", "\"", "(", ")", "a", " ", "-", "€", "/", "%", "."];
    let max_len = crate::bound(4, 6);
    let mut tried = 0u64;
    let mut stack: Vec<String> = vec![String::new()];
    while let Some(s) = stack.pop() {
        if !s.is_empty() {
            tried += 1;
            if panics(&s) {
                return (true, format!("evaluate_expression panics on {:?}", s));
            }
        }
        if s.chars().count() < max_len {
            for a in &alpha {
                stack.push(format!("{}{}", s, a));
            }
        }
    }
    (false, format!("{} strings of <= {} characters over {:?}", tried, max_len, alpha))
}

pub fn witnesses() -> Vec<crate::W> {
    vec![
        ("c05_expression_multibyte_and_non_numeric", c05_expression_multibyte_and_non_numeric),
        ("c05_expression_search", c05_expression_search),
    ]
}
