//! C07 witnesses (unit rete_agenda): the TypedReteUlEngine::fire_all hang and a bounded differential check of the agenda order.
//! Register in main.rs with `mod rete_agenda;` and `all.extend(rete_agenda::witnesses());`.
use rust_rule_engine::rete::{Activation, AdvancedAgenda, AlphaNode, ReteUlNode, TypedReteUlEngine};
use std::sync::mpsc;
use std::time::Duration;

/// one always-true rule with no_loop = false: before the fix (commit "fix: TypedReteUlEngine::fire_all stops after max_iterations ...")
/// fire_all never returns; the call runs in a thread that is abandoned after 3 s.
fn c07_typed_fire_all_returns() -> (bool, String) {
    let (tx, rx) = mpsc::channel();
    std::thread::spawn(move || {
        let mut e = TypedReteUlEngine::new();
        e.set_fact("x", 1i64);
        let node = ReteUlNode::UlAlpha(AlphaNode { field: "x".to_string(), operator: "==".to_string(), value: "1".to_string() });
        e.add_rule_with_action("always".to_string(), node, 0, false, |_f, _r| {});
        let fired = e.fire_all();
        let _ = tx.send(fired.len());
    });
    match rx.recv_timeout(Duration::from_secs(3)) {
        Ok(n) => (false, format!("always-true rule, no_loop=false: fire_all returned after firing {} times", n)),
        Err(_) => (true, "TypedReteUlEngine: set_fact(x,1); rule always(x == 1, no_loop=false, action leaves x alone); fire_all() did not return within 3 s".to_string()),
    }
}

/// bounded search: every sequence of <= 5 (thorough tier: 11) activations with saliences from {0,1,2}, added to MAIN and popped (each pop followed by
/// mark_rule_fired, distinct rule names): the pop order must be descending salience, earlier created first among equals.
fn c07_agenda_order_search() -> (bool, String) {
    let max_len = crate::bound(5, 11);
    let mut tried = 0u64;
    let mut stack: Vec<Vec<i32>> = vec![vec![]];
    while let Some(s) = stack.pop() {
        if !s.is_empty() {
            tried += 1;
            let mut ag = AdvancedAgenda::new();
            for (i, sal) in s.iter().enumerate() {
                ag.add_activation(Activation::new(format!("r{}", i), *sal));
            }
            let mut got: Vec<(i32, std::time::Instant, String)> = Vec::new();
            while let Some(a) = ag.get_next_activation() {
                ag.mark_rule_fired(&a);
                got.push((a.salience, a.created_at, a.rule_name.clone()));
            }
            if got.len() != s.len() {
                return (true, format!("saliences {:?}: {} of {} activations came out", s, got.len(), s.len()));
            }
            for w in got.windows(2) {
                let ok = w[0].0 > w[1].0 || (w[0].0 == w[1].0 && w[0].1 <= w[1].1);
                if !ok {
                    return (true, format!("saliences {:?}: {} fired before {}", s, w[0].2, w[1].2));
                }
            }
        }
        if s.len() < max_len {
            for sal in [0, 1, 2] {
                let mut t = s.clone();
                t.push(sal);
                stack.push(t);
            }
        }
    }
    (false, format!("{} sequences of add_activation/get_next_activation/mark_rule_fired (<= {} activations with saliences from 0/1/2), all in agenda order", tried, max_len))
}

pub fn witnesses() -> Vec<crate::W> {
    vec![
        ("c07_typed_fire_all_returns", c07_typed_fire_all_returns as fn() -> (bool, String)),
        ("c07_agenda_order_search", c07_agenda_order_search as fn() -> (bool, String)),
    ]
}
